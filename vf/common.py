"""Shared bootstrap: paths, environment, determinism settings."""
import hashlib
import json
import os
import sys

VERIF = os.path.dirname(os.path.dirname(os.path.abspath(__file__)))
REPO = os.path.abspath(os.environ.get("VERIF_REPO", "/repo"))
VENDOR = os.path.join(VERIF, "vendor")
EVIDENCE_DIR = os.path.join(VERIF, "evidence")
REPLAY_DIR = os.path.join(VERIF, "replays")
FINDINGS_FILE = os.path.join(VERIF, "findings", "known_findings.jsonl")
PLUGIN_DIR = os.path.join(VERIF, "vf", "plugins")
PYTHON = sys.executable or "/venv/bin/python"
NPROC = int(os.environ.get("VERIF_JOBS", "0")) or min(16, os.cpu_count() or 1)

try:
    SEED = int(os.environ.get("VERIF_SEED", "0"))
except ValueError:
    SEED = 0

REQUIRED_ENV = {
    "PYTHONHASHSEED": "0",
    "PYTHONDONTWRITEBYTECODE": "1",
    "LC_ALL": "C.UTF-8",
    "LANG": "C.UTF-8",
    "TZ": "UTC",
    "PYTHONIOENCODING": "utf-8",
}


def child_env(extra=None):
    """Environment for subprocesses running the real CLI against REPO."""
    env = dict(os.environ)
    env.update(REQUIRED_ENV)
    pp = [REPO, VERIF, VENDOR]
    env["PYTHONPATH"] = os.pathsep.join(pp)
    env.pop("PYMARKDOWN_VERIF", None)
    if extra:
        env.update(extra)
    return env


def ensure_env_and_reexec():
    """PYTHONHASHSEED must be fixed before the interpreter starts: re-exec once if it is not."""
    need = {k: v for k, v in REQUIRED_ENV.items() if os.environ.get(k) != v}
    if need and os.environ.get("VF_REEXEC") != "1":
        env = dict(os.environ)
        env.update(REQUIRED_ENV)
        env["VF_REEXEC"] = "1"
        env["PYTHONPATH"] = os.pathsep.join(
            [VERIF] + [x for x in env.get("PYTHONPATH", "").split(os.pathsep) if x]
        )
        os.execve(sys.executable, [sys.executable] + sys.argv_orig, env)


def bootstrap():
    """Put the repository under test and the vendored oracle on sys.path (repo first)."""
    for p in (VENDOR, VERIF, REPO):
        if p in sys.path:
            sys.path.remove(p)
        sys.path.insert(0, p)
    sys.dont_write_bytecode = True
    os.makedirs(EVIDENCE_DIR, exist_ok=True)
    os.makedirs(REPLAY_DIR, exist_ok=True)


def sha(s):
    if isinstance(s, str):
        s = s.encode("utf-8", "surrogatepass")
    return hashlib.sha256(s).hexdigest()


def case_hash_int(s):
    if isinstance(s, str):
        s = s.encode("utf-8", "surrogatepass")
    return int.from_bytes(hashlib.sha256(s).digest()[:16], "big")


def jdump(obj):
    return json.dumps(obj, sort_keys=True, ensure_ascii=True)


def repo_describe():
    import subprocess

    try:
        return subprocess.run(
            ["git", "-C", REPO, "rev-parse", "--short", "HEAD"],
            capture_output=True,
            text=True,
            check=False,
        ).stdout.strip()
    except OSError:
        return "unknown"
