"""Evidence and replay files (DESIGN 2.8)."""
import json
import os
import time

from . import common

LEVEL = "model_checking"

COMMON_ASSUMPTIONS = [
    "CPython 3.12 at /venv/bin/python executes the working tree of the repository under test "
    "(VERIF_REPO, default /repo) by import; PYTHONHASHSEED=0, LC_ALL=C.UTF-8, TZ=UTC",
    "documents longer than the stated bounds and characters outside the stated alphabets are not covered",
    "real disk errors (ENOSPC, EIO) are outside every property's quantifier and are not injected",
]


class Evidence:
    def __init__(self, prop, tier):
        self.prop = prop
        self.tier = tier
        self.t0 = time.time()
        self.coverage = {}
        self.assumptions = list(COMMON_ASSUMPTIONS)
        self.violations = 0

    def write(self):
        doc = {
            "property_id": self.prop,
            "tier": self.tier,
            "seed": common.SEED,
            "level": LEVEL,
            "coverage": self.coverage,
            "assumptions": self.assumptions,
            "wall_s": round(time.time() - self.t0, 2),
            "violations": self.violations,
            "repo_head": common.repo_describe(),
            "repo_path": common.REPO,
        }
        os.makedirs(common.EVIDENCE_DIR, exist_ok=True)
        path = os.path.join(common.EVIDENCE_DIR, f"{self.prop}.json")
        tmp = path + ".tmp"
        with open(tmp, "w", encoding="utf-8") as f:
            json.dump(doc, f, indent=1, sort_keys=True, ensure_ascii=True)
            f.write("\n")
        os.replace(tmp, path)
        return path


def write_replay(prop, n, payload):
    os.makedirs(common.REPLAY_DIR, exist_ok=True)
    path = os.path.join(common.REPLAY_DIR, f"{prop}_{n:03d}.json")
    payload = dict(payload)
    payload["property"] = prop
    payload["repo_head"] = common.repo_describe()
    with open(path, "w", encoding="utf-8") as f:
        json.dump(payload, f, indent=1, sort_keys=True, ensure_ascii=True)
        f.write("\n")
    return path
