"""State graph of the TLA+ write-back model (models/WriteBack.tla) as dumped by TLC, for validating
implementation traces against the model (conformance: every recorded I/O history of the real
write-back must be a path of the model's graph)."""
import os
import re
import shutil
import subprocess
import tempfile

from . import common

MODEL_DIR = os.path.join(common.VERIF, "models")
_cache = {}


def _run_tlc(d, cfg, dot):
    return subprocess.run(
        ["tlc", "-workers", "1", "-noGenerateSpecTE", "-metadir", os.path.join(d, "meta"), "-deadlock", "-config", cfg, "-dump", "dot,actionlabels", dot, "WriteBack.tla"],
        cwd=d, capture_output=True, text=True, timeout=300,
        # TLC and SANY unpack their standard modules under java.io.tmpdir and leave them behind: keep that inside d
        env=dict(os.environ, JAVA_TOOL_OPTIONS=f"-Djava.io.tmpdir={os.path.join(d, 'jtmp')}"),
    )


def available():
    return shutil.which("tlc") is not None


def graph(parts, atomic=True):
    """(init_state, {state: set(successors)}) with states as (target, staged, pc); None if TLC is not installed."""
    key = (parts, atomic)
    if key in _cache:
        return _cache[key]
    if not available():
        _cache[key] = None
        return None
    d = tempfile.mkdtemp(prefix="vf_tlc_")
    try:
        cfg = os.path.join(d, "wb.cfg")
        with open(cfg, "w") as f:
            f.write(f"CONSTANTS Parts = {parts}  Atomic = {'TRUE' if atomic else 'FALSE'}\nINIT Init\nNEXT Next\nINVARIANTS TypeOK NeverDamaged\n")
        shutil.copy(os.path.join(MODEL_DIR, "WriteBack.tla"), os.path.join(d, "WriteBack.tla"))
        dot = os.path.join(d, "g.dot")
        os.makedirs(os.path.join(d, "jtmp"), exist_ok=True)
        try:
            r = _run_tlc(d, cfg, dot)
        except Exception:  # noqa: BLE001 - TLC is supplementary: never let it break the check
            _cache[key] = None
            return None
        ok = "No error has been found" in r.stdout
        nodes, edges, init = {}, {}, None
        if os.path.exists(dot):
            txt = open(dot).read()
            for m in re.finditer(r'^(-?\d+) \[label="((?:[^"\\]|\\.)*)"(,style = filled)?', txt, re.M):
                lab = m.group(2)
                t = re.search(r'target = \\"(\w+)\\"', lab).group(1)
                s = int(re.search(r"staged = (-?\d+)", lab).group(1))
                pc = re.search(r'pc = \\"(\w+)\\"', lab).group(1)
                nodes[m.group(1)] = (t, s, pc)
                if m.group(3):
                    init = (t, s, pc)
            for m in re.finditer(r'^(-?\d+) -> (-?\d+) \[label="(\w+)"', txt, re.M):
                a, b = nodes.get(m.group(1)), nodes.get(m.group(2))
                if a and b:
                    edges.setdefault(a, set()).add((b, m.group(3)))
        _cache[key] = {"ok": ok, "init": init, "edges": edges, "states": len(nodes), "stdout": r.stdout[-400:]}
    finally:
        shutil.rmtree(d, ignore_errors=True)
    return _cache[key]


def validate(trace, parts):
    """trace: list of abstract states (target, staged, pc) of one write-back episode of the
    implementation.  Returns None if it is a path of the atomic model from Init to pc=done and every
    state on it has a Crash successor that leaves the file as it is; else a message."""
    g = graph(parts, True)
    if g is None:
        return "tlc-unavailable"
    if not g["ok"]:
        return "TLC reports an invariant violation in the atomic model: " + g["stdout"]
    seq = [trace[0]]
    for s in trace[1:]:
        if s != seq[-1]:
            seq.append(s)
    if seq[0] != g["init"]:
        return f"implementation history starts in {seq[0]}, the model in {g['init']}"
    for a, b in zip(seq, seq[1:]):
        succ = {x for x, _l in g["edges"].get(a, ())}
        if b not in succ:
            return f"step {a} -> {b} of the implementation is not a transition of the model"
    for a in seq[:-1]:
        crash = [x for x, l in g["edges"].get(a, ()) if l == "Crash"]
        if not crash or crash[0][0] != a[0]:
            return f"no crash transition preserving the file from {a}"
    if seq[-1][2] != "done":
        return f"implementation history ends in {seq[-1]}, not in pc=done"
    return None
