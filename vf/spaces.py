"""Deterministic document spaces (DESIGN 2.2).  Every space is closed under the sub-case order:
deleting whole symbols (lines / atoms) of a case gives another case of the same space.

A document "with final newline" is simply a document whose last line is "" (that is how every
pymarkdown source provider delivers it), so one product space covers both variants.
"""
import itertools

SP = " "
TAB = "\t"

SIGMA_CORE = [
    "",
    "a",
    "  a",
    "   b",
    "    a",
    "\ta",
    "# a",
    "---",
    "===",
    "```",
    "> a",
    ">",
    "> > a",
    "- a",
    "-",
    "  - a",
    "1. a",
    "> - a",
    "- > a",
    "<div>",
    "[l]: /u",
    "[l]",
    "*a*",
    "a  ",
]

_WIDE_EXTRA = [
    # other bullet / ordered markers
    "+ a",
    "* a",
    "1) a",
    "2. a",
    "10. a",
    # deeper / odd nesting
    "- - a",
    "   - a",
    "    - a",
    ">     a",
    "-     a",
    "  > a",
    "    > a",
    ">> a",
    "> # a",
    "- # a",
    "> ```",
    "- ```",
    # fences
    "~~~",
    "````",
    "``` py",
    "    ```",
    # html
    "<!-- c -->",
    "</div>",
    "<a>",
    "<?x",
    # headings
    "# a #",
    "#a",
    "#  a",
    "## a",
    # breaks
    "***",
    "- - -",
    "___",
    # whitespace only
    " ",
    "  ",
    "\t",
    # tabs after markers
    "-\ta",
    ">\ta",
    "\t- a",
    # link definitions
    "[l]:",
    "[l]: /u 't'",
    "  [l]: /u",
    # inline bearing text
    "![i](/u)",
    "[b](/u)",
    "<http://a>",
    "`c`",
    "&amp;",
    "\\*a",
    "a\\",
    "a   ",
    "a *b",
    "b* c",
    # list marker followed by another marker / by a tab only
    "- 1. a",
    "1. - a",
    "-\t",
    # empty list items with every marker kind, multi-digit numbers
    "1.",
    "10.",
    "+",
    "*",
    "2)",
    # trailing spaces / hard breaks inside containers, indented fence, setext variants
    "> a  ",
    "- a  ",
    "   ```",
    "  # a",
    "#",
    "==",
    " ===",
    "<pre>",
    "</pre>",
    "[l]: <u>",
    "\\",
    # container markers followed by whitespace only, three-level nesting
    ">   ",
    ">  ",
    "-   ",
    "> - > a",
    "- > - a",
    # a link reference definition that starts inside a container
    "- [l]:",
    "1. [l]:",
    "> [l]:",
]
# characters that are not plain CommonMark input: non-ASCII letters, pymarkdown's in-band
# marker characters, a pragma line.  Not used for the CommonMark comparison (C03).
_WIDE_NONCM = [
    "é",
    "þ",
    "艨",
    "\x02",
    "\x05",
    "\b",
    "<!-- pyml disable-next-line md001-->",
]
SIGMA_WIDE_CM = SIGMA_CORE + _WIDE_EXTRA
SIGMA_WIDE = SIGMA_WIDE_CM + _WIDE_NONCM

SIGMA_INL = [
    "a",
    " ",
    "*",
    "**",
    "_",
    "__",
    "`",
    "``",
    "[",
    "]",
    "(/u)",
    "(",
    ")",
    "!",
    "<",
    ">",
    "\\",
    "&amp;",
    "\n",
    "<b>",
]
# a wider atom set, explored one step less deep than SIGMA_INL
SIGMA_INL_WIDE = SIGMA_INL + [
    "\t",
    "` ",
    " `",
    '<a t=">">',
    "<!-- > -->",
    '"',
    "'",
    "#",
    ":",
    "-",
    "1.",
    "~",
    "|",
    "<http://a>",
    "&#35;",
    "[a]",
    "é",
    "b",
    "&#9999999;",
    "<!---->",
    "<a /",
]
# lines of a paragraph that open / close inline constructs across line boundaries (multi-line inline
# elements), plus the line shapes line-oriented rules look at
SIGMA_MLI = [
    "",
    "a",
    "a `",
    "` a",
    "a ` b",
    " ` x",
    "`",
    "a <b",
    "c> d",
    "a [b",
    "c](/u) d",
    "a *b",
    "c* d",
    "#a",
    "   y",
    "a  ",
    "a\\",
    "[l]: /u",
    "> a",
    "- a",
]
# multi-line links (destination / title / label on continuation lines) and multi-line raw HTML
SIGMA_MLI2 = [
    "",
    "a",
    "===",
    "a [b](/u",
    "  \"t",
    "u\") c",
    "a [b][c",
    " d] e <b",
    "a <b",
    "    c='x'>d",
    "  e <i>f</i>",
    "[c d]: /u",
    "`",
]
INL_CONTEXTS = ["{X}", "[a]: /u\n\n{X}", "# {X}", "- {X}", "> {X}", "- # {X}"]

SIGMA_RULE = [
    "",
    "a",
    "# a",
    "## a",
    "### a",
    "#### a",
    "# a #",
    "#a",
    "#  a",
    " # a",
    "===",
    "---",
    "# a.",
    "# b",
    " ",
    "a ",
    "a  ",
    "a   ",
    "\ta",
    "a\tb",
    "aaaa bbbb cccc",
    "- a",
    "* a",
    "+ a",
    "-  a",
    "1. a",
    "2. a",
    "10. a",
    " - a",
    "  - a",
    "```",
    "```py",
    "~~~",
    "    a",
    "***",
    "- - -",
    "[a]()",
    "[a](#)",
    "![](u)",
    "![i](u)",
    "<b>",
    "http://a.b",
    "*a*",
    "* a *",
    "` c `",
    "[ a ](u)",
    ">  a",
    "> a",
    ">",
]


class Space:
    """A finite, indexable set of cases.  A case is (tag, symbols-tuple); text() gives the document."""

    name = "space"

    def __len__(self):
        raise NotImplementedError

    def case(self, i):
        raise NotImplementedError

    def text(self, case):
        raise NotImplementedError

    def key(self, case):
        """string identifying the case exactly (ledger key, replay file)"""
        return self.text(case)

    def payload(self, case):
        """what the check's evaluate() receives"""
        return self.text(case)

    def payload_from_key(self, key):
        return key

    def subcases(self, case):
        """All proper, non-empty sub-cases (symbol deletions)."""
        tag, syms = case
        n = len(syms)
        for r in range(n - 1, 0, -1):
            for idx in itertools.combinations(range(n), r):
                yield (tag, tuple(syms[i] for i in idx))

    def subcases1(self, case):
        """sub-cases obtained by deleting exactly ONE symbol (None: the space has no such notion and
        the full sub-case order is used)"""
        tag, syms = case[0], case[1]
        if len(syms) <= 1:
            return
        for i in range(len(syms)):
            yield (tag, tuple(syms[:i] + syms[i + 1 :])) + tuple(case[2:])

    def describe(self):
        return {"name": self.name, "size": len(self)}


class ProductSpace(Space):
    """All sequences of 1..maxlen symbols of `alphabet`, joined by `joiner`, placed in `template`."""

    def __init__(self, name, alphabet, maxlen, joiner="\n", template=None, minlen=1):
        self.name = name
        self.alphabet = list(alphabet)
        self.maxlen = maxlen
        self.minlen = minlen
        self.joiner = joiner
        self.template = template
        self._offsets = []
        total = 0
        for n in range(minlen, maxlen + 1):
            self._offsets.append((total, n))
            total += len(self.alphabet) ** n
        self._total = total

    def __len__(self):
        return self._total

    def case(self, i):
        k = len(self.alphabet)
        for off, n in reversed(self._offsets):
            if i >= off:
                j = i - off
                syms = []
                for _ in range(n):
                    j, r = divmod(j, k)
                    syms.append(self.alphabet[r])
                return (self.name, tuple(reversed(syms)))
        raise IndexError(i)

    def text(self, case):
        body = self.joiner.join(case[1])
        if self.template is not None:
            return self.template.replace("{X}", body)
        return body

    def describe(self):
        return {
            "name": self.name,
            "alphabet_size": len(self.alphabet),
            "max_len": self.maxlen,
            "size": self._total,
        }


class ListSpace(Space):
    """An explicit list of (symbols-tuple) cases with a joiner (used for frontier documents)."""

    def __init__(self, name, cases, joiner="\n"):
        self.name = name
        self.cases = list(cases)
        self.joiner = joiner

    def __len__(self):
        return len(self.cases)

    def case(self, i):
        return (self.name, tuple(self.cases[i]))

    def text(self, case):
        return self.joiner.join(case[1])


class UnionSpace(Space):
    def __init__(self, name, parts):
        self.name = name
        self.parts = list(parts)
        self._starts = []
        t = 0
        for p in self.parts:
            self._starts.append(t)
            t += len(p)
        self._total = t
        self._by_name = {p.name: p for p in self.parts}
        self.SINGLE_DELETION = all(getattr(p, "SINGLE_DELETION", True) for p in self.parts)

    def __len__(self):
        return self._total

    def case(self, i):
        for st, p in zip(reversed(self._starts), reversed(self.parts)):
            if i >= st:
                return p.case(i - st)
        raise IndexError(i)

    def text(self, case):
        return self._by_name[case[0]].text(case)

    def subcases(self, case):
        return self._by_name[case[0]].subcases(case)

    def subcases1(self, case):
        return self._by_name[case[0]].subcases1(case)

    def key(self, case):
        return self._by_name[case[0]].key(case)

    def payload(self, case):
        return self._by_name[case[0]].payload(case)

    def payload_from_key(self, key):
        return self.parts[0].payload_from_key(key)

    def describe(self):
        return {"name": self.name, "size": self._total, "parts": [p.describe() for p in self.parts]}


class ConfigDocSpace(Space):
    """documents x named configurations: case = (tag, lines, config-name).
    Sub-cases delete lines and keep the configuration."""

    def __init__(self, docspace, configs):
        self.doc = docspace
        self.configs = list(configs)
        self.name = f"{docspace.name}x{len(self.configs)}cfg"

    def __len__(self):
        return len(self.doc) * len(self.configs)

    def case(self, i):
        d, c = divmod(i, len(self.configs))
        _tag, syms = self.doc.case(d)
        return (self.name, syms, self.configs[c])

    def text(self, case):
        return self.doc.text((self.doc.name, case[1]))

    def key(self, case):
        import json

        return json.dumps([case[2], self.text(case)], ensure_ascii=True)

    def payload(self, case):
        return (case[2], self.text(case))

    def payload_from_key(self, key):
        import json

        c, t = json.loads(key)
        return (c, t)

    def subcases(self, case):
        for _tag, syms in self.doc.subcases((self.doc.name, case[1])):
            yield (self.name, syms, case[2])

    def describe(self):
        return {"name": self.name, "size": len(self), "documents": self.doc.describe(), "configurations": len(self.configs)}


def block_space(alphabet_name, maxlen):
    alpha = {
        "core": SIGMA_CORE,
        "wide": SIGMA_WIDE,
        "widecm": SIGMA_WIDE_CM,
        "rule": SIGMA_RULE,
    }[alphabet_name]
    return ProductSpace(f"B({alphabet_name},{maxlen})", alpha, maxlen)


def inline_space(k, contexts=(0, 1)):
    parts = []
    for c in contexts:
        parts.append(
            ProductSpace(f"I({k})ctx{c}", SIGMA_INL, k, joiner="", template=INL_CONTEXTS[c])
        )
    return UnionSpace(f"I({k})", parts)


def inline_wide_space(k, contexts, commonmark_only=False):
    atoms = [a for a in SIGMA_INL_WIDE if not (commonmark_only and a == "é")]
    return [
        ProductSpace(f"Iw({k})ctx{c}", atoms, k, joiner="", template=INL_CONTEXTS[c]) for c in contexts
    ]


SIGMA_EMPH = ["*", "_", "a", " "]
SIGMA_BRACKET = ["[", "]", "(", ")", "a", "!", "/u"]
# line alphabet for the application-level checks: heading ladders, setext shapes, list ladders,
# hard breaks - the constructs whose *sequences* (not single occurrences) rules reason about
SIGMA_MIX = ["", "a", "# a", "## a", "### a", "#### a", "a   ", "===", "---", "- a", "  - a", "1. a", "---  "]
# paragraph lines that trigger the inline / line-oriented rules, for rules that track the line within a paragraph
SIGMA_PARA = ["a", "aaaa bbbb cccc dddd", "a * b * c", "a ` b ` c", "[ a ](u) b", "#a", "a  ", "http://a.b c", ""]
# list item continuation shapes: what decides tight vs loose and what belongs to the item
SIGMA_LOOSE = ["- a", "", "  a", "  [l]: /u", "1. a", "   a", "  > a"]


def para_space(tier):
    n = 4 if tier == "thorough" else 3
    return ProductSpace(f"B(para,{n})", SIGMA_PARA, n)


def loose_space(tier):
    n = 6 if tier == "thorough" else 5
    return ProductSpace(f"B(loose,{n})", SIGMA_LOOSE, n, minlen=3)


def focus_spaces(tier):
    """deep, narrow inline spaces: emphasis delimiter runs and bracket structures"""
    e, b = (9, 7) if tier == "thorough" else (7, 5)
    return [
        ProductSpace(f"E({e})", SIGMA_EMPH, e, joiner=""),
        ProductSpace(f"Br({b})", SIGMA_BRACKET, b, joiner=""),
        ProductSpace(f"Br({b})lrd", SIGMA_BRACKET, b, joiner="", template=INL_CONTEXTS[1]),
    ]


# one or two trigger lines per fix level (0: md009/md010, 1: md019/md004/md046, 2: md048/md005, 3: md007, 5: md027)
SIGMA_LEVELS = ["", "~~~", "```", "    a", ">  a", "* a", "   * a", "#  a"]


def levels_deep_spaces():
    """two 4-line sub-alphabets of SIGMA_LEVELS explored to depth 6: a fix at one level that creates a
    trigger at another level while a third level already fails needs that many lines"""
    return [
        ProductSpace("B(levelsA,6)", ["", "~~~", "    a", ">  a"], 6, minlen=5),
        ProductSpace("B(levelsB,6)", ["", "* a", "   * a", "#  a"], 6, minlen=5),
    ]


def levels_space(tier):
    return ProductSpace(f"B(levels,{6 if tier == 'thorough' else 4})", SIGMA_LEVELS, 6 if tier == "thorough" else 4, minlen=3)


def mix_space(tier):
    return ProductSpace(f"B(mix,{4 if tier == 'thorough' else 3})", SIGMA_MIX, 4 if tier == "thorough" else 3)


def parser_space(tier, commonmark_only=False):
    """The shared space of the parser-level properties C01-C05."""
    wide = "widecm" if commonmark_only else "wide"
    if tier == "thorough":
        parts = [block_space("core", 5), block_space(wide, 3), ProductSpace("B(mli,4)", SIGMA_MLI, 4)]
        parts += inline_space(5, (0,)).parts
        parts += inline_wide_space(4, (0, 2), commonmark_only)
        parts += inline_wide_space(3, (1, 3, 4), commonmark_only)
    else:
        # quick: the full core alphabet to depth 3, a 19-line core (without the lines that differ
        # only inline or that the other spaces cover) to depth 4
        core19 = [l for l in SIGMA_CORE if l not in ("   b", "*a*", "[l]", "a  ", "===")]
        parts = [block_space("core", 3), ProductSpace("B(core19,4)", core19, 4, minlen=4), block_space(wide, 2), ProductSpace("B(mli,3)", SIGMA_MLI, 3)]
        parts += inline_wide_space(3, (0, 2, 3), commonmark_only)
    parts += focus_spaces(tier)
    parts.append(ProductSpace(f"B(mli2,{5 if tier == 'thorough' else 4})", SIGMA_MLI2, 5 if tier == "thorough" else 4))
    parts.append(loose_space(tier))
    parts.append(para_space(tier))
    return UnionSpace(f"parser-{tier}", parts)
