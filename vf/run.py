"""Dispatcher: python -m vf.run <property> [--tier quick|thorough] [--replay file]
exit 0 = property held on everything explored (known findings listed), 1 = VIOLATION printed,
2 = harness fault (never a verdict)."""
import argparse
import importlib
import os
import sys
import traceback

sys.argv_orig = list(sys.argv)
if sys.argv_orig and sys.argv_orig[0].endswith("run.py"):
    sys.argv_orig = ["-m", "vf.run"] + sys.argv_orig[1:]

from . import common  # noqa: E402


def main():
    common.ensure_env_and_reexec()
    ap = argparse.ArgumentParser()
    ap.add_argument("prop")
    ap.add_argument("--tier", default=os.environ.get("VERIF_TIER") or "quick")
    ap.add_argument("--replay")
    args = ap.parse_args()
    if args.tier not in ("quick", "thorough"):
        args.tier = "quick"
    common.bootstrap()
    os.chdir(common.VERIF)
    # one scratch root per run: workers (forked, terminated without atexit) put their sandboxes
    # under it and the parent removes it when the run ends
    import atexit
    import shutil
    import tempfile

    if not os.environ.get("VF_SCRATCH_ROOT"):
        root = tempfile.mkdtemp(prefix="vf_run_")
        os.environ["VF_SCRATCH_ROOT"] = root
        parent = os.getpid()
        atexit.register(lambda: os.getpid() == parent and shutil.rmtree(root, ignore_errors=True))
    sys.setrecursionlimit(10000)
    prop = args.prop.upper()
    from . import pool

    try:
        mod = importlib.import_module(f"vf.checks.{prop.lower()}")
        if args.replay:
            rc = mod.replay(args.replay)
        else:
            rc = mod.run(args.tier)
    except pool.HarnessFault as e:
        print(f"HARNESS-FAULT property={prop}: {e}", file=sys.stderr)
        return 2
    except Exception:  # noqa: BLE001
        traceback.print_exc()
        print(f"HARNESS-FAULT property={prop}: unexpected exception in the checker", file=sys.stderr)
        return 2
    return rc


if __name__ == "__main__":
    sys.exit(main())
