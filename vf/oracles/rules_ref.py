"""Reference predicates for the rules whose documentation gives a crisp, parser-independent condition
(DESIGN 3 C06).  Written from newdocs/src/plugins/rule_mdNNN.md; evaluated on markdown-it's block
tokens and the raw lines - never on pymarkdown's tokens.

Each predicate returns (expected, abstain):
  expected = list of sets of 1-based line numbers; every set must receive at least one report
  abstain  = set of lines on which reports of this rule are neither required nor forbidden
             (the documentation page is silent there); a report outside expected U abstain is spurious.
"""
import re

from . import cmark

ALL = set(range(0, 100000))


class Model:
    def __init__(self, text):
        self.text = text
        self.lines = text.split("\n")
        src = text if text.endswith("\n") else text + "\n"
        self.toks = cmark.parse(src)
        self.blocks = []  # dict(kind, start, end(inclusive), depth, parents, tok, inline)
        parents = []
        toks = self.toks
        for i, t in enumerate(toks):
            ty = t.type
            if ty.endswith("_open"):
                kind = ty[:-5]
                b = {"kind": kind, "start": t.map[0] + 1, "end": t.map[1], "depth": len(parents), "parents": [p["kind"] for p in parents], "tok": t, "inline": None}
                if kind in ("heading", "paragraph") and i + 1 < len(toks) and toks[i + 1].type == "inline":
                    b["inline"] = toks[i + 1]
                self.blocks.append(b)
                if kind not in ("heading", "paragraph"):
                    parents.append(b)
            elif ty.endswith("_close"):
                kind = ty[:-6]
                if kind not in ("heading", "paragraph") and parents:
                    parents.pop()
            elif ty in ("fence", "code_block", "hr", "html_block"):
                self.blocks.append({"kind": ty, "start": t.map[0] + 1, "end": t.map[1], "depth": len(parents), "parents": [p["kind"] for p in parents], "tok": t, "inline": None})
        self.code_lines = set()
        self.html_lines = set()
        for b in self.blocks:
            if b["kind"] in ("fence", "code_block"):
                self.code_lines.update(range(b["start"], b["end"] + 1))
            if b["kind"] == "html_block":
                self.html_lines.update(range(b["start"], b["end"] + 1))
        self.container_lines = set()
        for b in self.blocks:
            if b["kind"] in ("blockquote", "bullet_list", "ordered_list"):
                self.container_lines.update(range(b["start"], b["end"] + 1))

    def headings(self):
        out = []
        for b in self.blocks:
            if b["kind"] == "heading":
                t = b["tok"]
                level = int(t.tag[1])
                setext = t.markup in ("=", "-")
                line = self.lines[b["start"] - 1]
                closed = (not setext) and bool(re.search(r"[ \t]#+[ \t]*$", line)) and bool(re.match(r"^[ \t>]*[-+*\d.) \t>]*#{1,6}([ \t]|$)", line))
                style = "setext" if setext else ("atx_closed" if closed else "atx")
                out.append(dict(b, level=level, style=style, text=b["inline"].content if b["inline"] is not None else ""))
        return out

    def blank(self, ln):
        return 1 <= ln <= len(self.lines) and self.lines[ln - 1].strip(" \t") == ""

    def exists(self, ln):
        return 1 <= ln <= len(self.lines)


def _span(b):
    return set(range(b["start"], b["end"] + 1))


# ------------------------------------------------------------------ the predicates


def md001(m, cfg):
    exp = []
    prev = None
    for h in m.headings():
        if prev is not None and h["level"] > prev + 1:
            exp.append(_span(h))
        prev = h["level"]
    return exp, set()


def md003(m, cfg):
    style = cfg.get("style", "consistent")
    hs = m.headings()
    exp, abstain = [], set()
    if not hs:
        return exp, abstain
    want = style
    if style == "consistent":
        want = hs[0]["style"]
    for h in hs:
        if want in ("atx", "atx_closed"):
            ok = h["style"] == want
        elif want == "setext":
            if h["level"] >= 3:
                abstain |= _span(h)  # a level-3 heading cannot be SetExt: the page leaves this open
                continue
            ok = h["style"] == "setext"
        elif want in ("setext_with_atx", "setext_with_atx_closed"):
            if h["level"] <= 2:
                ok = h["style"] == "setext"
            else:
                ok = h["style"] == ("atx" if want == "setext_with_atx" else "atx_closed")
        else:
            return [], ALL
        if not ok:
            exp.append(_span(h))
    return exp, abstain


def md004(m, cfg):
    style = cfg.get("style", "consistent")
    names = {"asterisk": "*", "dash": "-", "plus": "+"}
    lists = [b for b in m.blocks if b["kind"] == "bullet_list"]
    exp = []
    if not lists:
        return exp, set()
    if style == "sublist":
        per_level = {}
        for b in lists:
            lvl = sum(1 for p in b["parents"] if p == "bullet_list")
            mk = b["tok"].markup
            if lvl not in per_level:
                per_level[lvl] = mk
            elif per_level[lvl] != mk:
                exp.append({b["start"]})
        return exp, set()
    want = names.get(style) if style != "consistent" else lists[0]["tok"].markup
    if want is None:
        return [], ALL
    for b in lists:
        if b["tok"].markup != want:
            exp.append({b["start"]})
    return exp, set()


def md009(m, cfg):
    br = cfg.get("br_spaces", 2)
    strict = cfg.get("strict", False)
    exp, abstain = [], set(m.html_lines)
    if cfg.get("list_item_empty_lines"):
        abstain |= {i + 1 for i, l in enumerate(m.lines) if l.strip(" ") == "" and l}
    if br < 2:
        return [], ALL
    for i, l in enumerate(m.lines):
        ln = i + 1
        if ln in m.code_lines or ln in abstain:
            continue
        n = len(l) - len(l.rstrip(" "))
        if n == 0:
            continue
        if l.strip(" ") == "" and ln in m.container_lines:
            abstain.add(ln)
            continue
        if strict or n != br:
            exp.append({ln})
        elif l.strip(" ") == "":
            abstain.add(ln)  # whitespace-only line with exactly br_spaces spaces
    return exp, abstain


def md010(m, cfg):
    code = cfg.get("code_blocks", True)
    exp, abstain = [], set()
    if not code:
        # is the tab that *makes* an indented code block "within" it?  not specified
        for b in m.blocks:
            if b["kind"] == "code_block":
                abstain |= _span(b)
    for i, l in enumerate(m.lines):
        if "\t" in l and (code or (i + 1) not in m.code_lines):
            exp.append({i + 1})
    return exp, abstain


def md012(m, cfg):
    mx = cfg.get("maximum", 1)
    if not m.blocks:
        return [], ALL  # a document of blank lines only
    exp, abstain = [], set(m.html_lines)
    n = len(m.lines)
    i = 1
    last = n  # the application's line model (text.split) delivers the empty line after a final newline too
    while i <= last:
        if m.blank(i) and i not in m.code_lines:
            j = i
            while j + 1 <= last and m.blank(j + 1) and (j + 1) not in m.code_lines:
                j += 1
            run = set(range(i, j + 1))
            if j - i + 1 > mx:
                if run & abstain:
                    abstain |= run
                else:
                    exp.append(run | {j + 1})
            i = j + 1
        else:
            i += 1
    # lines that hold only container markers are blank lines inside a container: the page counts them
    # but does not say how; do not judge documents with such runs
    for k in range(len(m.lines) - 1):
        if re.fullmatch(r"[ >]*>[ >]*", m.lines[k]) and (m.lines[k + 1].strip(" >") == ""):
            return [], ALL
    return exp, abstain


def md013(m, cfg):
    ll = cfg.get("line_length", 80)
    hl = cfg.get("heading_line_length", 80)
    cl = cfg.get("code_block_line_length", 80)
    heads = cfg.get("headings", True)
    codes = cfg.get("code_blocks", True)
    strict = cfg.get("strict", False)
    if cfg.get("stern"):
        return [], ALL
    exp, abstain = [], set()
    hlines = set()
    for h in m.headings():
        if h["style"] == "setext":
            abstain |= _span(h)
        hlines |= _span(h)
    for i, l in enumerate(m.lines):
        ln = i + 1
        if ln in abstain:
            continue
        if ln in m.code_lines:
            if not codes:
                continue
            limit = cl
        elif ln in hlines:
            if not heads:
                continue
            limit = hl
        else:
            limit = ll
        if len(l) > limit and (strict or re.search(r"\s", l[limit:])):
            exp.append({ln})
    return exp, abstain


_INLINE_CHARS = set("*_`[]<>&\\!")


def md018(m, cfg):
    exp, abstain = [], set()
    for b in m.blocks:
        if b["kind"] == "paragraph" and b["inline"] is not None:
            for k, l in enumerate(b["inline"].content.split("\n")):
                ln = b["start"] + k
                s = l.lstrip(" ")
                mm = re.match(r"^(#{1,6})([^#\s])", s)
                if not mm:
                    continue
                if set(s) & _INLINE_CHARS or s.rstrip().endswith("#") or "\t" in m.lines[ln - 1]:
                    abstain.add(ln)
                    continue
                exp.append({ln})
    return exp, abstain


def md019(m, cfg):
    exp, abstain = [], set()
    for h in m.headings():
        if h["style"] == "setext":
            continue
        line = m.lines[h["start"] - 1]
        mm = re.search(r"(?<![^\s>\-+*.)\d])(#{1,6})([ \t]+)\S", line)
        if not mm:
            continue
        ws = mm.group(2)
        if "\t" in ws:
            abstain.add(h["start"])
        elif len(ws) > 1:
            exp.append({h["start"]})
    return exp, abstain


def md022(m, cfg):
    above = cfg.get("lines_above", 1)
    below = cfg.get("lines_below", 1)
    exp, abstain = [], set()
    hs = m.headings()
    first_block = m.blocks[0] if m.blocks else None
    for h in hs:
        if h["depth"] > 0:
            abstain |= _span(h)
            continue
        need = []
        # above
        if any(not m.blank(x) for x in range(1, h["start"])):
            k = 0
            ln = h["start"] - 1
            while ln >= 1 and m.blank(ln):
                k += 1
                ln -= 1
            if ln >= 1 or k:  # something precedes the heading
                if ln < 1:
                    abstain |= _span(h)  # only blank lines precede it
                elif k < above:
                    need.append("above")
                elif k > above:
                    abstain |= _span(h)
        # below
        ln = h["end"] + 1
        k = 0
        while ln <= len(m.lines) and m.blank(ln):
            k += 1
            ln += 1
        if ln > len(m.lines):
            abstain |= _span(h)  # the heading is the last element: the page says nothing about the end of the document
        elif k < below:
            need.append("below")
        elif k > below:
            abstain |= _span(h)
        if need:
            exp.append(_span(h))
    return exp, abstain


def md023(m, cfg):
    exp, abstain = [], set()
    for h in m.headings():
        if h["depth"] > 0:
            abstain |= _span(h)
            continue
        ls = [m.lines[i - 1] for i in range(h["start"], h["end"] + 1)]
        if any(l[:1] == "\t" or (l[:1] == " " and "\t" in l[: len(l) - len(l.lstrip())]) for l in ls):
            abstain |= _span(h)  # the page speaks of "leading spaces"
        elif any(l[:1] == " " for l in ls):
            exp.append(_span(h))
    return exp, abstain


def md024(m, cfg):
    if cfg.get("siblings_only") or cfg.get("allow_different_nesting"):
        # page: duplicates are allowed unless they are siblings (same level under the same parent heading).
        # Enforced one-sidedly: the same text at a DIFFERENT level is never a sibling (must not report);
        # the same text, same level, same chain of parent headings is a twin (must report); else abstain.
        exp, abstain = [], set()
        stack = []  # (level, text)
        seen = {}
        for h in m.headings():
            while stack and stack[-1][0] >= h["level"]:
                stack.pop()
            chain = tuple(stack)
            prev = seen.setdefault(h["text"], [])
            if any(lv == h["level"] and ch == chain for lv, ch in prev):
                exp.append(_span(h))
            elif any(lv == h["level"] for lv, ch in prev):
                abstain |= _span(h)
            prev.append((h["level"], chain))
            stack.append((h["level"], h["text"]))
        return exp, abstain
    seen = {}
    exp, abstain = [], set()
    for h in m.headings():
        raw = "\n".join(m.lines[h["start"] - 1 : h["end"]])
        raw = re.sub(r"^[ \t>]*#{1,6}[ \t]+|\n[ \t]*[=-]+[ \t]*$", "", raw)
        if h["text"] in seen:
            if seen[h["text"]] != raw:
                abstain |= _span(h)  # same text, different spelling of whitespace: "strict comparison" is not specified further
            else:
                exp.append(_span(h))
        seen.setdefault(h["text"], raw)
    return exp, abstain


def md025(m, cfg):
    lvl = cfg.get("level", 1)
    exp = []
    n = 0
    for h in m.headings():
        if h["level"] == lvl:
            n += 1
            if n > 1:
                exp.append(_span(h))
    return exp, set()


def md026(m, cfg):
    punct = cfg.get("punctuation", ".,;:!。，；")
    exp, abstain = [], set()
    for h in m.headings():
        t = h["text"].rstrip()
        if not t:
            continue
        if t[-1] in punct:
            if re.search(r"&#?\w+;$", t):
                continue
            if t[-1] == "\\" or (len(t) > 1 and t[-2] == "\\"):
                abstain |= _span(h)
                continue
            exp.append(_span(h))
    return exp, abstain


def md031(m, cfg):
    exp, abstain = [], set()
    if cfg.get("list_items") is False:
        return [], ALL
    for b in m.blocks:
        if b["kind"] != "fence":
            continue
        if b["depth"] > 0:
            abstain |= _span(b) | {b["end"] + 1, b["start"] - 1}
            continue
        bad = False
        if m.exists(b["start"] - 1) and not m.blank(b["start"] - 1):
            bad = True
        last = m.lines[b["end"] - 1] if m.exists(b["end"]) else ""
        closed = b["end"] > b["start"] and re.match(r"^ {0,3}(`{3,}|~{3,})[ \t]*$", last) is not None
        if closed and m.exists(b["end"] + 1) and not m.blank(b["end"] + 1):
            # (the empty pseudo-line after a final newline is blank)
            bad = True
        if bad:
            exp.append(_span(b))
    return exp, abstain


def md032(m, cfg):
    exp, abstain = [], set()
    for b in m.blocks:
        if b["kind"] not in ("bullet_list", "ordered_list"):
            continue
        if b["depth"] > 0:
            if "blockquote" in b["parents"]:
                abstain |= _span(b) | {b["end"] + 1}
            continue
        bad = False
        if m.exists(b["start"] - 1) and not m.blank(b["start"] - 1):
            bad = True
        end = b["end"]
        while end > b["start"] and m.blank(end):
            end -= 1  # the token's line range may include trailing blank lines
        if m.exists(end + 1) and not m.blank(end + 1):
            bad = True
        if bad:
            exp.append(_span(b) | {b["end"] + 1})
        else:
            # lazy continuation lines at the end of the list: the page does not say
            pass
    return exp, abstain


def md035(m, cfg):
    style = cfg.get("style", "consistent")
    hrs = [b for b in m.blocks if b["kind"] == "hr"]
    exp = []
    if not hrs:
        return exp, set()

    def spelled(b):
        return m.lines[b["start"] - 1].strip(" \t>")  # leading whitespace discarded

    if any(b["depth"] > 0 for b in hrs):
        return [], ALL
    want = spelled(hrs[0]) if style == "consistent" else style
    for b in hrs:
        if spelled(b) != want:
            exp.append({b["start"]})
    return exp, set()


def md040(m, cfg):
    exp = []
    for b in m.blocks:
        if b["kind"] == "fence" and b["tok"].info.strip() == "":
            exp.append({b["start"]})
    return exp, set()


def md041(m, cfg):
    lvl = cfg.get("level", 1)
    if not m.blocks:
        return [], ALL
    b = m.blocks[0]
    # link reference definitions and other token-less lines before the first block: not covered by the page
    for ln in range(1, b["start"]):
        if not m.blank(ln):
            return [], ALL
    if b["kind"] == "heading" and int(b["tok"].tag[1]) == lvl:
        return [], set()
    if b["kind"] == "html_block":
        if re.match(r"^\s*<h1[\s>]", b["tok"].content, re.I):
            return [], set()
        return [], ALL
    if b["kind"] in ("blockquote", "bullet_list", "ordered_list"):
        # first element is a container: is a heading inside it "the first element"?  not covered
        return [], ALL
    return [set(range(1, b["end"] + 1))], set()


def _inline_items(m):
    """(line, token) for links/images inside leaves"""
    for b in m.blocks:
        if b["inline"] is None:
            continue
        ln = b["start"]
        for c in b["inline"].children or []:
            if c.type in ("softbreak", "hardbreak"):
                ln += 1
            elif c.type in ("link_open", "image"):
                yield ln, c, b
            if c.type in ("code_inline", "html_inline", "text") and "\n" in c.content:
                ln += c.content.count("\n")


def md042(m, cfg):
    exp, abstain = [], set()
    for ln, c, b in _inline_items(m):
        url = c.attrGet("href") if c.type == "link_open" else c.attrGet("src")
        url = (url or "").strip()
        if url == "" or url == "#":
            exp.append(_span(b) if b["end"] > b["start"] else {ln})
    return exp, abstain


def md045(m, cfg):
    exp = []
    for ln, c, b in _inline_items(m):
        if c.type == "image":
            alt = "".join(x.content for x in (c.children or []))
            if alt.strip() == "":
                exp.append(_span(b) if b["end"] > b["start"] else {ln})
    return exp, set()


def md046(m, cfg):
    style = cfg.get("style", "consistent")
    cbs = [b for b in m.blocks if b["kind"] in ("fence", "code_block")]
    exp = []
    if not cbs:
        return exp, set()
    kind = {"fence": "fenced", "code_block": "indented"}
    want = kind[cbs[0]["kind"]] if style == "consistent" else style
    for b in cbs:
        if kind[b["kind"]] != want:
            exp.append(_span(b))
    return exp, set()


def md047(m, cfg):
    t = m.text
    if t == "":
        return [], ALL
    n = len(m.lines)
    if not t.endswith("\n"):
        return [{n}], set()
    if t.endswith("\n\n") or t.strip() == "":
        return [], ALL
    return [], set()


def md048(m, cfg):
    style = cfg.get("style", "consistent")
    fs = [b for b in m.blocks if b["kind"] == "fence"]
    exp = []
    if not fs:
        return exp, set()
    ch = {"backtick": "`", "tilde": "~"}
    want = fs[0]["tok"].markup[0] if style == "consistent" else ch.get(style)
    if want is None:
        return [], ALL
    for b in fs:
        if b["tok"].markup[0] != want:
            exp.append({b["start"]})
    return exp, set()


PREDICATES = {
    "md001": md001,
    "md003": md003,
    "md004": md004,
    "md009": md009,
    "md010": md010,
    "md012": md012,
    "md013": md013,
    "md018": md018,
    "md019": md019,
    "md022": md022,
    "md023": md023,
    "md024": md024,
    "md025": md025,
    "md026": md026,
    "md031": md031,
    "md032": md032,
    "md035": md035,
    "md040": md040,
    "md041": md041,
    "md042": md042,
    "md045": md045,
    "md046": md046,
    "md047": md047,
    "md048": md048,
}

# configuration grids: (name, {item: value}) per rule - documented items only
GRIDS = {
    "md003": [{"style": s} for s in ("atx", "atx_closed", "setext", "setext_with_atx", "setext_with_atx_closed")],
    "md004": [{"style": s} for s in ("asterisk", "dash", "plus", "sublist")],
    "md009": [{"br_spaces": 3}, {"strict": True}],
    "md010": [{"code_blocks": False}],
    "md012": [{"maximum": 2}],
    "md013": [{"line_length": 12}, {"line_length": 12, "strict": True}, {"line_length": 12, "code_blocks": False, "code_block_line_length": 12}, {"line_length": 12, "headings": False, "heading_line_length": 12}, {"heading_line_length": 5}, {"code_block_line_length": 5}, {"heading_line_length": 3}, {"heading_line_length": 5, "strict": True}, {"code_block_line_length": 3, "strict": True}, {"line_length": 5, "heading_line_length": 30, "code_block_line_length": 30}],
    "md022": [{"lines_above": 0}, {"lines_below": 0}, {"lines_above": 2, "lines_below": 2}],
    "md024": [{"siblings_only": True}, {"allow_different_nesting": True}],
    "md025": [{"level": 2}],
    "md026": [{"punctuation": ".?"}],
    "md035": [{"style": "***"}, {"style": "---"}],
    "md041": [{"level": 2}],
    "md046": [{"style": "fenced"}, {"style": "indented"}],
    "md048": [{"style": "backtick"}, {"style": "tilde"}],
}


def judge(rule, m, cfg, reported_lines):
    """reported_lines: list of line numbers reported by the rule.  Returns None or (kind, detail)."""
    exp, abstain = PREDICATES[rule](m, cfg)
    if abstain is ALL:
        return None
    union = set()
    for s in exp:
        union |= s
    for ln in reported_lines:
        if ln not in union and ln not in abstain:
            return ("spurious", {"line": ln, "expected_line_sets": [sorted(s) for s in exp]})
    rep = set(reported_lines)
    for s in exp:
        if not (s & rep) and not (s & abstain):
            return ("missed", {"expected_one_of_lines": sorted(s), "reported": sorted(rep)})
    return None
