"""Content fingerprint of a Markdown document, computed from the token tree of the independent
parser (markdown-it-py).  Everything the fixing rules are documented to normalise is erased by
construction: heading level/style, bullet and ordered markers and start numbers, fence
character/length and indented-vs-fenced, thematic-break spelling, runs of spaces/tabs in text and at
line ends, blank-line counts, final newline, container indentation, the boundary between adjacent
sibling lists of the same kind, whitespace runs inside HTML blocks.  What remains: the nested sequence
of block kinds, code-block content (exact) and info string, inline structure, link/image targets and
titles, and every character of text."""
import re

from . import cmark

_WS = re.compile(r"[ \t]+")


def _norm_text(s):
    s = _WS.sub(" ", s)
    return s


def _inline(children, relax):
    """flat list of inline items"""
    out = []
    buf = []

    def flush():
        if buf:
            t = _norm_text("".join(buf))
            if t:
                out.append(("t", t))
            del buf[:]

    for c in children or []:
        t = c.type
        if t == "text":
            buf.append(c.content)
        elif t == "softbreak":
            flush()
            out.append(("sb",))
        elif t == "hardbreak":
            flush()
            out.append(("hb",))
        elif t == "code_inline":
            flush()
            content = c.content
            if "md038" in relax:
                content = content.strip(" ")
            out.append(("code", content))
        elif t in ("em_open", "strong_open"):
            flush()
            out.append(("<" + t[:-5],))
        elif t in ("em_close", "strong_close"):
            flush()
            out.append((">" + t[:-6],))
        elif t == "link_open":
            flush()
            out.append(("<a", c.attrGet("href"), c.attrGet("title")))
        elif t == "link_close":
            flush()
            out.append((">a",))
        elif t == "image":
            flush()
            out.append(("img", c.attrGet("src"), c.attrGet("title"), _plain(c.children)))
        elif t == "html_inline":
            flush()
            out.append(("html", c.content))
        else:
            flush()
            out.append((t, c.content))
    flush()
    # text at the very start/end of the leaf: surrounding whitespace is insignificant
    if out and out[0][0] == "t":
        out[0] = ("t", out[0][1].lstrip(" "))
    if out and out[-1][0] == "t":
        out[-1] = ("t", out[-1][1].rstrip(" "))
    # whitespace next to a line break is insignificant
    for i, it in enumerate(out):
        if it[0] == "t":
            s = it[1]
            if i + 1 < len(out) and out[i + 1][0] in ("sb", "hb"):
                s = s.rstrip(" ")
            if i > 0 and out[i - 1][0] in ("sb", "hb"):
                s = s.lstrip(" ")
            out[i] = ("t", s)
    out = [it for it in out if it != ("t", "")]
    if "md039" in relax:
        # spaces just inside link text
        for i, it in enumerate(out):
            if it[0] == "t":
                s = it[1]
                if i > 0 and out[i - 1][0] == "<a":
                    s = s.lstrip(" ")
                if i + 1 < len(out) and out[i + 1][0] == ">a":
                    s = s.rstrip(" ")
                out[i] = ("t", s)
    if "md037" in relax:
        # emphasis markers with inner spaces become emphasis: compare the characters only
        flat = "".join(it[1] if it[0] in ("t", "code") else "" for it in out)
        flat = re.sub(r"[*_ ]", "", flat)
        rest = [it for it in out if it[0] not in ("t", "<em", ">em", "<strong", ">strong")]
        out = [("t*", flat)] + rest
    if "md044" in relax:
        out = [(it[0], it[1].lower()) + tuple(it[2:]) if it[0] in ("t", "t*", "code") else it for it in out]
    return out


def _plain(children):
    return "".join(c.content for c in (children or []) if c.type in ("text", "code_inline"))


def fingerprint(text, relax=()):
    """relax: set of lower-case rule ids whose documented normalisation applies (enabled and fired)."""
    toks = cmark.parse(text if text.endswith("\n") else text + "\n")
    root = []
    stack = [root]
    for t in toks:
        ty = t.type
        if ty.endswith("_open") and ty not in ("paragraph_open", "heading_open"):
            node = [ty[:-5] if ty != "list_item_open" else "li"]
            if ty == "ordered_list_open":
                node = ["list-o"]
            elif ty == "bullet_list_open":
                node = ["list-u"]
            elif ty == "blockquote_open":
                node = ["bq"]
            stack[-1].append(node)
            stack.append(node)
        elif ty.endswith("_close") and ty not in ("paragraph_close", "heading_close"):
            stack.pop()
        elif ty == "inline":
            stack[-1].append(("inline", _inline(t.children, relax)))
        elif ty == "heading_open":
            stack[-1].append(("h",))
        elif ty == "paragraph_open":
            stack[-1].append(("p",))
        elif ty in ("paragraph_close", "heading_close"):
            pass
        elif ty in ("fence", "code_block"):
            content = t.content
            info = t.info.strip() if ty == "fence" else ""
            stack[-1].append(("code", content, info))
        elif ty == "hr":
            stack[-1].append(("hr",))
        elif ty == "html_block":
            stack[-1].append(("html", re.sub(r"\s+", " ", t.content).strip()))
        else:
            stack[-1].append((ty, t.content))
    return _merge_lists(root)


def _merge_lists(nodes):
    out = []
    for n in nodes:
        if isinstance(n, list):
            n = [n[0]] + _merge_lists(n[1:])
            if out and isinstance(out[-1], list) and out[-1][0] == n[0] and n[0].startswith("list-"):
                out[-1] = out[-1] + n[1:]
                continue
        out.append(n)
    return out


def text_characters(text):
    """all text characters of the document in order, whitespace removed (nothing dropped, duplicated or moved)"""
    fp = fingerprint(text)
    acc = []

    def rec(nodes):
        for n in nodes:
            if isinstance(n, list):
                rec(n[1:])
            elif n[0] == "inline":
                for it in n[1]:
                    if it[0] in ("t", "code"):
                        acc.append(re.sub(r"\s", "", it[1]))
                    elif it[0] == "img":
                        acc.append(re.sub(r"\s", "", it[3] or ""))
            elif n[0] == "code":
                acc.append(re.sub(r"\s", "", n[1]))
    rec(fp)
    return "".join(acc)
