"""Independent CommonMark reference: vendored markdown-it-py (commonmark preset, no plugins)."""
import re

_MD = None


def md():
    global _MD
    if _MD is None:
        import markdown_it

        _MD = markdown_it.MarkdownIt("commonmark")
    return _MD


def render(text):
    """Reference HTML.  A missing final line ending is insignificant in CommonMark (a line may end
    at end of input); markdown-it slices code-block content from the source, so it is given the
    document with its last line terminated."""
    return md().render(text if text.endswith("\n") else text + "\n")


def parse(text):
    return md().parse(text)


_PRE = re.compile(r"(<pre>.*?</pre>)", re.S)
_BT = re.compile(r"\s*(</?(?:blockquote|ul|ol|li|p|h[1-6]|hr)(?: [^>]*)?/?>)\s*")
_NL = re.compile(r"[ \t]*\n\s*")


def norm(html):
    """Whitespace adjacent to block-level tags is removed; whitespace around a line break inside text
    collapses to the line break (the CommonMark project's own spec-test normaliser goes further and
    collapses every whitespace run; pymarkdown keeps the space before a soft break, which the suite
    pins) - never inside <pre>.  Other whitespace inside text and code spans is compared exactly."""
    parts = _PRE.split(html)
    out = []
    for i, p in enumerate(parts):
        if i % 2 == 1:
            out.append(p)
        else:
            p = _BT.sub(lambda m: m.group(1), p)
            p = _NL.sub("\n", p)
            out.append(p.strip())
    return "".join(out)


def lazy_interrupt_ambiguity(text):
    """True when the reference lets an *empty* list item or an ordered list not starting at 1 begin
    on the line right after a paragraph line (only possible through a lazy continuation line).
    The specification text (both 0.29 and 0.31: such an item cannot interrupt a paragraph, "a line
    that would otherwise count as paragraph continuation text") and the reference implementations
    (cmark, commonmark.js, markdown-it: they start the list) disagree here, so these documents are
    not adjudicated (DESIGN 3 C03, exclusions)."""
    toks = parse(text if text.endswith("\n") else text + "\n")
    lines = text.split("\n") + [""]
    para_ends = {t.map[1] for t in toks if t.type == "paragraph_open" and t.map}
    for i, t in enumerate(toks):
        if t.type in ("bullet_list_open", "ordered_list_open") and t.map and t.map[0] in para_ends:
            if t.type == "ordered_list_open" and str(t.attrGet("start") or 1) != "1":
                return True
            # first item begins with a blank line (only the marker on its first line)?
            if i + 2 < len(toks) and toks[i + 1].type == "list_item_open" and toks[i + 2].type == "list_item_close":
                return True
            if _MARKER_ONLY.match(lines[t.map[0]]):
                return True
    return False


_MARKER_ONLY = re.compile(r"^[ \t>]*(?:[-+*]|\d{1,9}[.)])[ \t]*$")
_EXCL_LINK_AT_END = re.compile(r"\]\([ \t]*$", re.M)
_EXCL_DECL = re.compile(r"<![A-Za-z]")
_EXCL_INDENTED_CONT = re.compile(r"\n[ >]*[ \t]+\S")


def excluded_construct(text):
    """Constructs kept out of the comparison (each a check correction recorded in DESIGN 3 C03):
    * '](' with nothing after it in the inline content: markdown-it gives up on the whole link
      (also on the reference-link fallback the specification prescribes, cf. the spec example
      '[foo](not a link)'), a quirk of the reference, not of the specification;
    * '<!' + letter: an HTML declaration in 0.31 (any ASCII letter) but not in 0.29 (upper case
      name followed by whitespace) - the two specification versions disagree;
    * a backtick anywhere together with an indented continuation line: the specification strips the
      leading whitespace of paragraph continuation lines before inline parsing (cmark does, and so
      does pymarkdown); markdown-it keeps it inside a code span that runs over the line break."""
    if _EXCL_LINK_AT_END.search(text):
        return "link-open-paren-at-end-of-inline"
    if _EXCL_DECL.search(text):
        return "html-declaration-0.29-vs-0.31"
    if "`" in text and _EXCL_INDENTED_CONT.search(text):
        return "code-span-over-indented-continuation-line"
    return None
