"""Curation helper (never run by a check, never at check time): run a check, classify its unlisted
minimal counterexamples with the check module's classify() and add them to the committed ledger,
one record per defect class, each case listed exactly.  The result is reviewed and committed by hand.
usage: python -m vf.tools.curate C03 [--tier quick] [--dry]"""
import argparse
import collections
import contextlib
import importlib
import io
import json
import os
import re
import sys

sys.argv_orig = list(sys.argv)
from .. import common  # noqa: E402


def slug(s):
    return re.sub(r"[^A-Za-z0-9]+", "-", s).strip("-")[:60]


def load(path):
    recs = []
    if os.path.exists(path):
        with open(path, encoding="utf-8") as f:
            for line in f:
                if line.strip() and not line.startswith("#"):
                    recs.append(json.loads(line))
    return recs


def save(path, recs):
    with open(path, "w", encoding="utf-8") as f:
        for r in recs:
            f.write(json.dumps(r, ensure_ascii=True, sort_keys=True) + "\n")


def main():
    ap = argparse.ArgumentParser()
    ap.add_argument("prop")
    ap.add_argument("--tier", default="quick")
    ap.add_argument("--dry", action="store_true")
    ap.add_argument("--prune", action="store_true", help="remove listed inputs that no longer fail (after a check correction)")
    args = ap.parse_args()
    if os.environ.get("PYTHONHASHSEED") != "0":
        env = dict(os.environ)
        env.update(common.REQUIRED_ENV)
        env["PYTHONPATH"] = common.VERIF
        os.execve(sys.executable, [sys.executable, "-m", "vf.tools.curate"] + sys.argv[1:], env)
    common.bootstrap()
    os.chdir(common.VERIF)
    sys.setrecursionlimit(10000)
    prop = args.prop.upper()
    mod = importlib.import_module(f"vf.checks.{prop.lower()}")
    buf = io.StringIO()
    os.environ["VF_NO_CONFIRM"] = "1"
    with contextlib.redirect_stdout(buf):
        info = mod.run(args.tier, return_info=True)
    path = os.path.join(common.VERIF, "findings", f"known_findings.{prop}.jsonl")
    recs = load(path)
    by_id = {r["finding"]: r for r in recs}
    if args.prune:
        gone = {k for _fid, k in info.get("listed_pass", [])}
        n0 = sum(len(r["cases"]) for r in recs)
        for r in recs:
            r["cases"] = [c for c in r["cases"] if c["key"] not in gone]
        recs = [r for r in recs if r["cases"]]
        by_id = {r["finding"]: r for r in recs}
        print(f"pruned {n0 - sum(len(r['cases']) for r in recs)} listed inputs that no longer fail")
    added = collections.Counter()
    for key, sig, detail in info["unlisted"]:
        cls, summary = mod.classify(key, sig, detail)
        fid = f"{prop}-{slug(cls)}"
        rec = by_id.get(fid)
        if rec is None:
            rec = {
                "finding": fid,
                "property": prop,
                "status": "open",
                "summary": summary,
                "cases": [],
            }
            by_id[fid] = rec
            recs.append(rec)
        if not any(c["key"] == key for c in rec["cases"]):
            rec["cases"].append({"key": key, "sig": sig})
            added[fid] += 1
    print(f"{len(info['unlisted'])} unlisted cores -> {len(added)} classes touched, {len(recs)} records total")
    for fid, n in added.most_common():
        r = by_id[fid]
        print(f"  +{n:4d} {fid}: {r['summary']}   e.g. {r['cases'][-1]['key']!r}")
    if not args.dry:
        save(path, recs)
        print("written", path)


if __name__ == "__main__":
    main()
