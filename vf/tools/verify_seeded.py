"""Confirm a seeded change (seeded/<id>/patch.diff + demo) in a scratch worktree outside /repo and /verif:
patch applies, the repository's suite passes with it, the demo fails with it and passes without it; then
run the named checks against the patched copy (VERIF_REPO) and record which ones report a VIOLATION.
usage: python -m vf.tools.verify_seeded <seeded-id> [--checks C01,C02] [--skip-suite]"""
import argparse
import glob
import json
import os
import re
import subprocess
import sys
import time

VERIF = os.path.dirname(os.path.dirname(os.path.dirname(os.path.abspath(__file__))))


def sh(cmd, cwd=None, env=None, timeout=3600):
    r = subprocess.run(cmd, shell=True, cwd=cwd, env=env, capture_output=True, text=True, timeout=timeout)
    return r.returncode, r.stdout + r.stderr


def main():
    ap = argparse.ArgumentParser()
    ap.add_argument("sid")
    ap.add_argument("--checks", default="")
    ap.add_argument("--skip-suite", action="store_true")
    ap.add_argument("--tier", default="quick")
    args = ap.parse_args()
    sdir = os.path.join(VERIF, "seeded", args.sid)
    patch = os.path.join(sdir, "patch.diff")
    demos = [p for p in glob.glob(os.path.join(sdir, "demo*.py"))]
    wt = f"/tmp/wt/verify_{args.sid}"
    sh(f"git -C /repo worktree remove --force {wt}")
    rc, out = sh(f"git -C /repo worktree add -q --detach {wt} HEAD")
    assert rc == 0, out
    meta = {"id": args.sid, "repo_head": sh("git -C /repo rev-parse --short HEAD")[1].strip(), "ran": []}
    mpath = os.path.join(sdir, "meta.json")
    if os.path.exists(mpath):
        old = json.load(open(mpath))
        for k in ("property", "needs", "description", "detected_by", "missed_by"):
            if k in old:
                meta[k] = old[k]
    env = dict(os.environ, PYTHONPATH=wt, PYTHONDONTWRITEBYTECODE="1")
    try:
        rc, out = sh(f"git apply {patch}", cwd=wt)
        meta["patch_applies"] = rc == 0
        assert rc == 0, out
        if not args.skip_suite:
            t = time.time()
            rc, out = sh(
                "/venv/bin/python -m pytest -q -n 8 -p no:cacheprovider --timeout=900 "
                "--deselect test/test_main_config.py::test_markdown_with_dash_e_single_by_id_and_bad_config_file 2>&1 | tail -3",
                cwd=wt, env=env,
            )
            meta["suite_with_patch"] = out.strip().splitlines()[-1] if out.strip() else ""
            meta["ran"].append("pytest -q -n 8 (whole suite, known-flaky xdist test deselected) in the patched worktree")
            print("suite:", meta["suite_with_patch"], f"({time.time()-t:.0f}s)")
        for d in demos:
            name = os.path.basename(d)
            sh(f"cp {d} {wt}/{name}")
            rc1, out1 = sh(f"/venv/bin/python {name}", cwd=wt, env=env)
            sh(f"git apply -R {patch}", cwd=wt)
            rc0, out0 = sh(f"/venv/bin/python {name}", cwd=wt, env=env)
            sh(f"git apply {patch}", cwd=wt)
            meta["demo_with_patch_exit"] = rc1
            meta["demo_without_patch_exit"] = rc0
            meta["ran"].append(f"python {name} with the patch (exit {rc1}) and without it (exit {rc0})")
            print(f"demo {name}: with patch exit {rc1}, without exit {rc0}")
        det, miss = [], []
        for c in [x for x in args.checks.split(",") if x]:
            t = time.time()
            env2 = dict(os.environ, VERIF_REPO=wt)
            rc, out = sh(f"/venv/bin/python -m vf.run {c} --tier {args.tier}", cwd=VERIF, env=env2, timeout=7200)
            viol = [l for l in out.splitlines() if l.startswith("VIOLATION")]
            first = [l for l in out.splitlines() if l.strip().startswith("case=")][:2]
            print(f"check {c}: exit {rc}, {len(viol)} VIOLATION lines ({time.time()-t:.0f}s)", first[:1])
            (det if (rc == 1 and viol) else miss).append(c)
            meta["ran"].append(f"VERIF_REPO=<patched worktree> python -m vf.run {c} --tier {args.tier} -> exit {rc}, {len(viol)} VIOLATION lines")
            if first:
                meta.setdefault("first_counterexample", {})[c] = first[0].strip()[:300]
        if args.checks:
            meta["detected_by"] = sorted(set(meta.get("detected_by", [])) | set(det))
            meta["missed_by"] = sorted((set(meta.get("missed_by", [])) | set(miss)) - set(meta["detected_by"]))
    finally:
        sh(f"git -C /repo worktree remove --force {wt}")
    json.dump(meta, open(mpath, "w"), indent=1)
    print(json.dumps(meta, indent=1)[:1500])


if __name__ == "__main__":
    main()
