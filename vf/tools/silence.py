"""Run every registered quick command from a fresh process under several VERIF_SEED values and check that
each exits 0, prints no VIOLATION, and enumerates the same case set (count + digest) for every seed.
usage: python -m vf.tools.silence [--seeds 0,1,7] [--only C01,C02]"""
import argparse
import json
import os
import subprocess
import sys
import time

VERIF = os.path.dirname(os.path.dirname(os.path.dirname(os.path.abspath(__file__))))


def main():
    ap = argparse.ArgumentParser()
    ap.add_argument("--seeds", default="0,1,7")
    ap.add_argument("--only", default="")
    args = ap.parse_args()
    man = json.load(open(os.path.join(VERIF, "MANIFEST.json")))
    only = {x for x in args.only.split(",") if x}
    bad = 0
    for chk in man["checks"]:
        pid = chk["property_id"]
        if only and pid not in only:
            continue
        digests = set()
        for seed in args.seeds.split(","):
            env = dict(os.environ, VERIF_SEED=seed)
            env.pop("PYTHONHASHSEED", None)
            t = time.time()
            r = subprocess.run(chk["quick_cmd"], shell=True, cwd=VERIF, env=env, capture_output=True, text=True)
            viol = [l for l in r.stdout.splitlines() if l.startswith("VIOLATION")]
            ev = json.load(open(chk["evidence_file"]))
            cov = ev["coverage"]
            digests.add((cov.get("evaluations"), cov.get("case_set_digest")))
            ok = r.returncode == 0 and not viol and ev["seed"] == int(seed)
            print(f"{pid} seed={seed}: exit {r.returncode}, {len(viol)} violations, {cov.get('evaluations')} cases, digest {cov.get('case_set_digest')}, {time.time()-t:.0f}s {'ok' if ok else 'NOT OK'}", flush=True)
            if not ok:
                bad += 1
                print(r.stdout[-1500:], r.stderr[-1500:])
        if len(digests) != 1:
            bad += 1
            print(f"{pid}: case set differs between seeds: {digests}")
    print("silence:", "all quiet" if not bad else f"{bad} problems")
    return 1 if bad else 0


if __name__ == "__main__":
    sys.exit(main())
