"""Curation helper (never used by a check): run a check, group its unlisted minimal
counterexamples by signature and print candidate ledger records for human review.
usage: python -m vf.tools.propose C01 [--tier quick] [--out file]"""
import argparse
import collections
import importlib
import json
import os
import sys

sys.argv_orig = list(sys.argv)
from .. import common  # noqa: E402


def main():
    ap = argparse.ArgumentParser()
    ap.add_argument("prop")
    ap.add_argument("--tier", default="quick")
    ap.add_argument("--out", default=None)
    args = ap.parse_args()
    if os.environ.get("PYTHONHASHSEED") != "0":
        env = dict(os.environ)
        env.update(common.REQUIRED_ENV)
        env["PYTHONPATH"] = common.VERIF
        os.execve(sys.executable, [sys.executable, "-m", "vf.tools.propose"] + sys.argv[1:], env)
    common.bootstrap()
    os.chdir(common.VERIF)
    sys.setrecursionlimit(10000)
    mod = importlib.import_module(f"vf.checks.{args.prop.lower()}")
    import io
    import contextlib

    buf = io.StringIO()
    with contextlib.redirect_stdout(buf):
        info = mod.run(args.tier, return_info=True)
    groups = collections.OrderedDict()
    for key, sig, detail in info["unlisted"]:
        groups.setdefault(sig, []).append((key, detail))
    out = open(args.out, "w", encoding="utf-8") if args.out else sys.stdout
    for sig, items in groups.items():
        rec = {
            "finding": "?",
            "property": args.prop.upper(),
            "status": "open",
            "summary": "?",
            "signature": sig,
            "cases": [{"key": k, "sig": sig} for k, _ in items],
        }
        out.write(json.dumps(rec, ensure_ascii=True, sort_keys=True) + "\n")
    print(f"{len(info['unlisted'])} unlisted cores in {len(groups)} signature groups", file=sys.stderr)
    for sig, items in groups.items():
        print(f"  {len(items):4d} {sig}   e.g. {items[0][0]!r}", file=sys.stderr)


if __name__ == "__main__":
    main()
