"""Writes /verif/MANIFEST.json from the table below (so it is always schema-valid)."""
import json
import os

from .. import common

BASELINE = "cd /repo && /venv/bin/python -m pytest -ra -q -p no:cacheprovider --timeout=900 --continue-on-collection-errors"

CHECKS = {
    "C01": ("bounded-exhaustive enumeration + explicit-state search of the parser state graph; deterministic work budget",
            "Every document of the stated block/inline spaces and every one-line extension of every reachable abstract parser state is parsed by the real parser under a deterministic work budget; scaling families measure growth. Bounded exhaustive model checking is the right level: the property quantifies over all inputs and the defects are interactions of a few short lines.",
            "3 C01"),
    "C02": ("bounded-exhaustive enumeration + explicit-state frontier; identity oracle",
            "Regenerated Markdown is compared character for character with the source on every document of the spaces.", "3 C02"),
    "C03": ("bounded-exhaustive enumeration + explicit-state frontier; differential against an independent CommonMark implementation",
            "HTML of the token stream is compared with markdown-it-py on every CommonMark document of the spaces.", "3 C03"),
    "C04": ("bounded-exhaustive enumeration + explicit-state frontier; independent nesting automaton",
            "An independent stack automaton checks balance, back-pointers and class discipline of every token stream of the spaces.", "3 C04"),
    "C05": ("bounded-exhaustive enumeration + explicit-state frontier; opener table on the source text",
            "Every positioned token of every document of the spaces is checked against the source text at its line/column.", "3 C05"),
    "C07": ("bounded-exhaustive enumeration of documents x rule configurations on the real application; range/order/uniqueness invariants",
            "Every document of the rule/block spaces is scanned under the default set, all rules, and each rule alone; every report is checked for range, order, uniqueness, repeatability (also across hash seeds in fresh processes).", "3 C07"),
    "C09": ("bounded-exhaustive enumeration of documents x rule subsets (size 1, 2, default); fix chains d->fix(d)->fix(fix(d)) explored as a state graph",
            "Every fix chain over the spaces must reach a fixed point after one run with no fix-capable failure left.", "3 C09"),
    "C10": ("bounded-exhaustive enumeration of documents and of all ordered selections of 1-3 files from a pool x schemes x modes; byte-level snapshots",
            "bytes changed <=> 'Fixed:' announced <=> fixed exit code <=> API files_fixed; scan/stdin/list leave every file and the temp directory untouched.", "3 C10"),
    "C12": ("bounded-exhaustive enumeration of documents x rule subsets; differential: set run vs union of single-rule runs",
            "Reports under all rules / default set / default minus each rule must equal the multiset union of each rule's reports alone, on every document of the spaces.", "3 C12"),
    "C11": ("bounded-exhaustive enumeration of documents x insertion points x generated pragma family; differential against the same document without the pragma",
            "failures with the pragma = shifted failures minus exactly the named rules on exactly the covered lines; tokens = shifted tokens; malformed pragmas reported and inert.", "3 C11"),
    "C18": ("exhaustive enumeration of outcome-producing scenarios (file-outcome lists x continue-on-error x scheme x scheme source, all sub-commands) against the documented table",
            "Exit code must equal table[category][scheme], the category being derived from the constructed scenario and measured observables; injected plugin/parser faults included.", "3 C18"),
    "C19": ("exhaustive enumeration of directory trees x argument lists x options; reference selection model replayed against the implementation (direct call and CLI)",
            "The selected file set, its order, uniqueness and the error/no-files result are compared with a model of the documented rules on every case.", "3 C19"),
    "C20": ("bounded-exhaustive enumeration of documents x all 64 extension subsets; differential parse equality + front-matter shift oracle",
            "tokens under S must equal tokens under S restricted to the extensions whose syntax occurs; disabled extensions leave no trace; front matter = token + shifted parse of the rest.", "3 C20"),
    "C16": ("bounded-exhaustive enumeration of documents x rule selections x seven entry points; differential equality; all log-level/stack-trace/log-file combinations",
            "Failure tuples must be identical across file scan, stdin scan, scan_string, scan_path; fixed text identical across fix in place, fix_string, fix_path; diagnostics options change nothing else.", "3 C16"),
    "C17": ("complete enumeration of the layer product (3^4 x 4 command-line states x rules x namings x file flavours) and of every configuration item x value class x layer x strictness; precedence model replayed against the implementation three ways",
            "Every state of the documented precedence model is replayed against plugins list, plugins info and a probe scan.", "3 C17"),
    "C14": ("exhaustive enumeration of recorder-plugin variants (16 callback subsets x fix support x enabled x company) x documents x file sequences x modes; protocol automaton over the recorded callback log",
            "Every callback log must be accepted by the life-cycle automaton: exact tokens and numbered lines per file in scan mode, (S+ T* L* C)* per pass in fix mode, nothing for disabled rules or undefined callbacks.", "3 C14"),
    "C15": ("deviation-bounded exhaustive fault enumeration: an exception at every callback invocation / parser invocation, an undecodable file at every position, process death at every intercepted I/O step of the write-back; invariants on every resulting state",
            "For every single fault point of 3-file runs: error reported naming the file, system-error exit, other files unaffected under continue-on-error, files original-or-fully-fixed, no temp files; every crash snapshot of the write-back holds an acceptable file.", "3 C15"),
    "C08": ("bounded-exhaustive enumeration of documents x {default set, each fix-capable rule alone}; content fingerprint from the independent parser's token tree compared before/after fix",
            "After fix, the nested block sequence, code content, inline structure, link targets and every character of text must be unchanged, up to the documented normalisations.", "3 C08"),
    "C13": ("exhaustive enumeration of histories (all ordered pairs over a 50-document pool, triples over a core) within one process, differential against the file alone; explicit-state BFS over rule-instance state dumps",
            "Per-file output and bytes within any history must equal those of the file processed alone; the reachable set of rule-instance states is explored breadth-first with a canonical dump as state key.", "3 C13"),
    "C06": ("bounded-exhaustive enumeration of documents (on which the CommonMark comparison passes) x 24 rules x configuration grids; reference predicates from the rule documentation evaluated on the independent parser's tokens",
            "For every document and grid point the set of (line, rule) pairs reported must match the documented condition: no missed occurrence, no report where the condition is false; abstentions where a page is silent are explicit per predicate.", "3 C06"),
}
NOT_YET = {}
# thorough tiers whose ledger was curated at that tier with the final code (a thorough command is only
# registered when it has been seen silent on the unchanged tree)
THOROUGH_OK = {"C01", "C02", "C03", "C04", "C05", "C06", "C07", "C08", "C09", "C10", "C11", "C13", "C14", "C15", "C17", "C18", "C20"}
NOTES = {
    "C01": "Trusted: CPython's sys.monitoring event counts as the work measure; bounds: B(core,3)+B(core19,4)+B(wide,2)+mli/mli2+Iw(3)+E(7)+Br(5) quick, one level deeper thorough; polynomial claim only measured on pumped families up to n=64/128.",
    "C02": "Trusted: the identity oracle (string equality); documents that fail to parse are C01's and skipped.",
    "C03": "Trusted: vendored markdown-it-py 4.0.0 with one local patch (vendor/PATCHES.md) as the CommonMark reference; three documented exclusions where the reference or the two specification versions disagree with the specification text.",
    "C04": "Trusted: the ~80-line stack automaton in vf/checks/c04.py (kind table written in the harness); blank-line tokens inside HTML blocks are accepted as content.",
    "C05": "Trusted: the opener table in vf/checks/c05.py; columns accepted on the raw or the tab-expanded line.",
    "C06": "Trusted: 24 reference predicates in vf/oracles/rules_ref.py written from the rule documentation, evaluated on markdown-it's tokens; explicit abstentions where a page is silent; only documents on which C03's comparison passes.",
    "C07": "Trusted: output parsing in vf/app.py; lines as text.split('\\n'); hash-seed repeatability on four rich documents in fresh processes.",
    "C08": "Trusted: markdown-it-py as the independent renderer and the fingerprint in vf/oracles/fingerprint.py (what it erases is listed there).",
    "C09": "Trusted: pruning of rule subsets in which no rule fires rests on 'no fixable failure => fix is the identity', itself checked for the default set everywhere and for all subsets on one-line documents.",
    "C10": "Trusted: SHA-256 snapshots of the sandbox (cwd + TMPDIR) before/after every run.",
    "C11": "Trusted: the 15-line reading of pragmas.md in vf/checks/c11.py (named rules x exactly the covered lines).",
    "C12": "Trusted: multiset union over single-rule runs; deep documents use a pruned configuration set (rules silent under 'all' and 'default' are not re-run alone).",
    "C13": "Trusted: equal canonical dumps of all rule instances imply equal futures (state closure); differential against the file alone needs no expected values.",
    "C14": "Trusted: the life-cycle grammar (S+ T* L* C)* per pass and exact expectation in scan mode, from docs/developer.md.",
    "C15": "Trusted: I/O interposition in vf/crashpoints.py (page cache = disk; torn writes inside one write() not modelled); TLA+ model models/WriteBack.tla bound to the code by trace validation.",
    "C16": "Trusted: tuple extraction from CLI output vs API objects; whitespace-only documents not compared.",
    "C17": "Trusted: the precedence model transcribed from advanced_configuration.md; out-of-range samples limited to values invalid under any reading.",
    "C18": "Trusted: the exit-code table transcribed from user-guide.md; categories derived from constructed scenarios and measured observables.",
    "C19": "Trusted: the selection model in vf/checks/c19.py (component-wise non-recursive glob, case-sensitive extensions).",
    "C20": "Trusted: the syntactic 'needed' predicate per extension (over-approximation) and the disabled-extension trace invariants.",
}


def main():
    props = [json.loads(l) for l in open(os.path.join(common.VERIF, "properties.jsonl"))]
    checks = []
    na = []
    for p in props:
        pid = p["id"]
        if pid in CHECKS:
            tech, text, ref = CHECKS[pid]
            checks.append(
                {
                    "property_id": pid,
                    "quick_cmd": f"/venv/bin/python -m vf.run {pid} --tier quick",
                    **({"thorough_cmd": f"/venv/bin/python -m vf.run {pid} --tier thorough"} if pid in THOROUGH_OK else {}),
                    "evidence_file": f"/verif/evidence/{pid}.json",
                    "replay_cmd_template": f"/venv/bin/python -m vf.run {pid} --replay {{path}}",
                    "engine": "vf",
                    "level_claimed": {"category": "fault_enumeration" if pid == "C15X" else "model_checking", "text": text, "design_ref": f"DESIGN.md section {ref}"},
                    "level_note": NOTES.get(pid, "") + " Bounds and alphabets as printed in the evidence file; genuine defects of the pinned tree are listed in findings/ by exact minimal input (KNOWN-FINDING lines).",
                    "technique": tech,
                }
            )
        else:
            na.append({"property_id": pid, "reason": NOT_YET.get(pid, "check not built yet (work in progress in this session; will be claimed when its check exists)")})
    man = {
        "version": 1,
        "setup_cmd": "/venv/bin/python -m vf.setup",
        "hooks": {
            "guard": "PYMARKDOWN_VERIF",
            "enable": "not needed: the checks drive the unmodified working tree through public entry points; no source hooks exist",
            "baseline_off_cmd": BASELINE,
            "source_commits": [],
            "add_only": True,
        },
        "engines": [
            {
                "name": "vf",
                "path": "/verif/vf",
                "serves_properties": sorted(CHECKS),
                "kind_free_text": "hand-written explicit-state / bounded-exhaustive explorer for Python (multiprocess), "
                "driving the real pymarkdown code; oracles: identity, markdown-it-py, automata, documented tables",
            }
        ],
        "checks": checks,
        "notes": "See DESIGN.md. Known genuine defects of the pinned tree are listed in findings/known_findings*.jsonl.",
        "not_applicable": na,
    }
    with open(os.path.join(common.VERIF, "MANIFEST.json"), "w") as f:
        json.dump(man, f, indent=1)
        f.write("\n")
    print("MANIFEST.json:", len(checks), "checks,", len(na), "not claimed")


if __name__ == "__main__":
    main()
