"""Oracle self-test (run by vf.setup): every oracle must reject a hand-made violation and accept the
corresponding good case - a guard against an oracle that has silently become vacuous."""
import sys

sys.argv_orig = list(sys.argv)
from .. import common  # noqa: E402


def main():
    common.bootstrap()
    from .. import parser
    from ..checks import c04, c05, c19
    from ..oracles import cmark, fingerprint, rules_ref

    ok = []

    def expect(name, cond):
        ok.append((name, bool(cond)))

    # C04 automaton
    st, toks, _ = parser.parse("- a\n\n> b *c*\n", eos=True)
    expect("c04 accepts a real stream", c04.automaton(toks, True)[0] is None)
    expect("c04 rejects a stream with a dropped end token", c04.automaton([t for t in toks if t.token_name != "end-ulist"], True)[0] is not None)
    expect("c04 rejects a duplicated end token", c04.automaton(toks[:4] + [toks[3]] + toks[4:], True)[0] is not None)
    expect("c04 rejects an inline token outside a leaf", c04.automaton([toks[2]] + toks, True)[0] is not None)
    # C05 opener table
    msg, _s = c05.check_positions("- a\n\n> b *c*\n", toks)
    expect("c05 accepts true positions", msg is None)
    msg, _s = c05.check_positions("- a\n\n>  b *c*\n", toks)
    expect("c05 rejects positions of a different source", msg is not None)
    # C03 normalisation / reference
    expect("cmark.norm keeps code-span whitespace", cmark.norm("<p><code> \t </code></p>") != cmark.norm("<p><code>\t</code></p>"))
    expect("cmark.norm ignores whitespace around block tags", cmark.norm("<ul>\n<li>a</li>\n</ul>\n") == cmark.norm("<ul><li>a</li></ul>"))
    expect("reference strips one space of a padded code span with a tab inside", "<code>\t</code>" in cmark.render("` \t `"))
    # C08 fingerprint
    fp = fingerprint.fingerprint
    expect("fingerprint erases marker and heading style", fp("* a\n\n# t\n") == fp("- a\n\nt\n===\n"))
    expect("fingerprint sees a paragraph turned into code", fp("- a\n\n  b\n") != fp("- a\n\n      b\n"))
    expect("fingerprint sees a dropped hard break", fp("a  \nb\n") != fp("a\nb\n"))
    expect("fingerprint sees changed code content", fp("```\na\tb\n```\n") != fp("```\na   b\n```\n"))
    # C06 predicates
    m = rules_ref.Model("# a\n\n### b\n")
    expect("md001 predicate fires on a skipped level", rules_ref.md001(m, {})[0] == [{3}])
    expect("judge reports a miss", rules_ref.judge("md001", m, {}, []) is not None)
    expect("judge reports a spurious line", rules_ref.judge("md001", m, {}, [1, 3]) is not None)
    expect("judge accepts the documented verdict", rules_ref.judge("md001", m, {}, [3]) is None)
    # C19 model
    expect("selection model: duplicates collapse, sorted", c19.model(("a.md", "d/e.md"), ("d", "./a.md", "a.md"), False, None) == ("ok", ["a.md", "d/e.md"]))
    expect("selection model: glob without match is an error", c19.model(("a.md",), ("n*.md",), False, None)[0] == "error")
    bad = [n for n, c in ok if not c]
    print(f"oracle self-test: {len(ok) - len(bad)}/{len(ok)} ok")
    for n in bad:
        print("  FAILED:", n)
    return 1 if bad else 0


if __name__ == "__main__":
    sys.exit(main())
