"""Findings ledger (DESIGN 2.5): committed list of genuine defects of the pinned tree, each
identified by its exact minimal failing inputs.  Read-only at run time."""
import json
import os

from . import common


class Ledger:
    def __init__(self, prop, path=None):
        self.prop = prop
        self.records = []
        self.by_key = {}
        self.fixed = []
        path = path or common.FINDINGS_FILE
        paths = [path]
        d = os.path.dirname(path)
        # large per-property case lists live next to the main file
        extra = os.path.join(d, f"known_findings.{prop}.jsonl")
        if os.path.exists(extra):
            paths.append(extra)
        for pth in paths:
            if not os.path.exists(pth):
                continue
            with open(pth, encoding="utf-8") as f:
                for line in f:
                    line = line.strip()
                    if not line or line.startswith("#"):
                        continue
                    rec = json.loads(line)
                    if rec.get("property") != prop:
                        continue
                    if str(rec.get("status", "open")).startswith("fixed"):
                        self.fixed.append(rec)
                        continue
                    self.records.append(rec)
                    for c in rec["cases"]:
                        self.by_key[c["key"]] = (rec["finding"], c.get("sig"))

    def lookup(self, key, sig=None):
        """finding id if (key, sig) is a listed input of an open record, else None."""
        hit = self.by_key.get(key)
        if hit is None:
            return None
        fid, lsig = hit
        if lsig is not None and sig is not None and lsig != sig:
            return None
        return fid

    def record(self, fid):
        for r in self.records:
            if r["finding"] == fid:
                return r
        return None


def report(prop, ledger, failing_min, all_failing_keys=None, out=print):
    """failing_min: list of (key, sig, detail).  Prints KNOWN-FINDING lines; returns
    (known_by_finding, unlisted list)."""
    known = {}
    unlisted = []
    for key, sig, detail in failing_min:
        fid = ledger.lookup(key, sig)
        if fid is None:
            unlisted.append((key, sig, detail))
        else:
            known.setdefault(fid, []).append(key)
    for rec in ledger.records:
        fid = rec["finding"]
        hits = known.get(fid, [])
        if hits:
            out(
                f"KNOWN-FINDING: property={prop} finding={fid} {rec['summary']} "
                f"({len(hits)} of {len(rec['cases'])} listed inputs fail in this run; first: {hits[0]!r})"
            )
    return known, unlisted
