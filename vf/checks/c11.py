"""C11 - pragmas suppress exactly what they name and are invisible to the parser (DESIGN 3, C11)."""
import json
import re
import sys

from .. import app, common, parser, spaces, sweep

PROP = "C11"
CHUNK = 60
RULE = (
    "base documents (that scan without error) x every insertion point x a pragma family generated from the rules that fire in the "
    "base document (by id, by alias, upper case, one/two/all rules, disable-next-line and disable-num-lines N in {1,2,3,99}) plus malformed pragmas; "
    "differential against the same document without the pragma line; non-trivial = case in which at least one failure was expected to be suppressed"
)
STATES_MEANING = "distinct abstract parser states at line boundaries of the documents with a pragma inserted; transitions = scan executions + line feeds"
ASSUMPTIONS = [
    "suppression semantics transcribed from newdocs/src/extensions/pragmas.md: named rules x exactly the next line / the next N lines; "
    "a malformed pragma suppresses nothing and is reported as an INLINE error at the pragma's line",
]

QUIET_RULE = "md044"  # proper-names: never fires without configuration


class PragmaSpace(spaces.Space):

    """(document, insertion index): the pragma line is inserted before line `ins` (ins = len: appended)."""

    def __init__(self, docspace):
        self.doc = docspace
        self.name = "P:" + docspace.name
        self._tab = []
        total = 0
        k = len(docspace.alphabet)
        doc_off = 0
        for n in range(docspace.minlen, docspace.maxlen + 1):
            cnt = k**n
            self._tab.append((total, doc_off, n, cnt))
            total += cnt * (n + 1)
            doc_off += cnt
        self._total = total

    def __len__(self):
        return self._total

    def case(self, i):
        for off, doc_off, n, cnt in reversed(self._tab):
            if i >= off:
                j = i - off
                d, ins = divmod(j, n + 1)
                _t, syms = self.doc.case(doc_off + d)
                return (self.name, syms, ins)
        raise IndexError(i)

    def text(self, case):
        return "\n".join(case[1])

    def key(self, case):
        return json.dumps([list(case[1]), case[2]], ensure_ascii=True)

    def payload(self, case):
        return (tuple(case[1]), case[2])

    def payload_from_key(self, key):
        l, ins = json.loads(key)
        return (tuple(l), ins)

    def subcases(self, case):
        _n, syms, ins = case
        n = len(syms)
        import itertools

        for r in range(n - 1, 0, -1):
            for idx in itertools.combinations(range(n), r):
                kept = [syms[i] for i in idx]
                new_ins = sum(1 for i in idx if i < ins)
                yield (self.name, tuple(kept), new_ins)

    def subcases1(self, case):
        _n, syms, ins = case
        if len(syms) <= 1:
            return
        for i in range(len(syms)):
            yield (self.name, tuple(syms[:i] + syms[i + 1 :]), ins - 1 if i < ins else ins)

    def describe(self):
        return {"name": self.name, "size": self._total, "documents": self.doc.describe()}


def space(tier):
    if tier == "thorough":
        parts = [PragmaSpace(spaces.block_space("core", 3)), PragmaSpace(spaces.block_space("rule", 2))]
    else:
        parts = [PragmaSpace(spaces.block_space("core", 2)), PragmaSpace(spaces.block_space("rule", 2))]
    return spaces.UnionSpace(f"pragma-{tier}", parts)


_base_cache = {}


def _scan(text):
    with app.Sandbox({"t.md": text}) as sb:
        r = app.run_main(["scan", "t.md"], sb)
    if r.rc == "timeout" or r.rc not in (0, 1):
        return None
    fails, other = app.parse_failures(r.out)
    inline = [l for l in r.err.splitlines() if ": INLINE: " in l]
    othererr = [l for l in r.err.splitlines() if l.strip() and ": INLINE: " not in l]
    if othererr or other:
        return None
    return [(f["line"], f["col"], f["rule"], f["desc"]) for f in fails], inline


def _base(text):
    if text not in _base_cache:
        if len(_base_cache) > 16:
            _base_cache.clear()
        _base_cache[text] = _scan(text)
    return _base_cache[text]


def variants(firing):
    """list of (pragma line, well_formed, named rule ids (upper), N or None for next-line)"""
    t = app.rule_table()
    out = []
    rs = sorted(firing)[:3]
    for r in rs:
        rid = r.lower()
        alias = t[rid]["names"][0]
        out.append((f"<!-- pyml disable-next-line {rid}-->", True, {r}, 1))
        out.append((f"<!--- pyml disable-next-line {alias}-->", True, {r}, 1))
        out.append((f"<!-- pyml disable-next-line {rid.upper()}-->", True, {r}, 1))
        out.append((f"<!-- pyml disable-num-lines 2 {alias}-->", True, {r}, 2))
    allr = sorted(firing)
    if len(allr) >= 2:
        out.append((f"<!-- pyml disable-next-line {allr[0].lower()},{allr[1].lower()}-->", True, set(allr[:2]), 1))
    if allr:
        ids = ",".join(x.lower() for x in allr)
        for n in (1, 3, 99):
            out.append((f"<!-- pyml disable-num-lines {n} {ids}-->", True, set(allr), n))
    out.append((f"<!-- pyml disable-next-line {QUIET_RULE}-->", True, set(), 1))
    out.append((f"<!--- pyml disable-num-lines 2 {QUIET_RULE}-->", True, set(), 2))
    for bad in (
        "<!-- pyml -->",
        "<!-- pyml bad -->",
        "<!-- pyml disable-next-line md999x-->",
        "<!-- pyml disable-next-line-->",
        "<!-- pyml disable-num-lines 0 md001-->",
        "<!-- pyml disable-num-lines -1 md001-->",
        "<!-- pyml disable-num-lines x md001-->",
        "<!-- pyml disable-num-lines 2-->",
    ):
        out.append((bad, False, set(), None))
    return out


_POS = re.compile(r"\((\d+),(\d+)\)")


def _shift_tokens(toks, ins):
    def sh(mo):
        ln = int(mo.group(1))
        return f"({ln + 1 if ln >= ins + 1 else ln},{mo.group(2)})"

    return [_POS.sub(sh, s) for s in toks]


def evaluate(payload):
    lines, ins = payload
    text = "\n".join(lines)
    res = {"fail": None, "feeds": 0}
    st, base_toks, _w = parser.parse(text, eos=True)
    if st != "ok":
        res["outcome"] = "parse-failed"
        return res
    if any(l.startswith("<!--") and "pyml" in l for l in lines):
        res["outcome"] = "base-has-pragma"
    base = _base(text)
    if base is None:
        res["outcome"] = "base-scan-error"
        res["count"] = {"skipped_base_scan_error": 1}
        return res
    F, base_inline = base
    firing = {f[2] for f in F}
    pl = ins + 1  # line number of the pragma line
    states = set()
    expected_suppressions = 0
    first = True
    for pragma, ok, named, N in variants(firing):
        new_lines = list(lines[:ins]) + [pragma] + list(lines[ins:])
        text2 = "\n".join(new_lines)
        if first:
            # parser invisibility (tokens do not depend on which pragma it is)
            first = False
            st2, toks2, _w2, sts = parser.parse_with_states(new_lines, eos=True)
            states.update(s for s in sts if s is not None)
            res["feeds"] += len(new_lines)
            if st2 != "ok":
                res["fail"] = ("parse-fails-with-pragma", f"document parses, but not with a pragma line inserted at line {pl}: {toks2}")
                break
            got = [str(t) for t in toks2 if t.token_name != "pragma"]
            exp = _shift_tokens([str(t) for t in base_toks if t.token_name != "pragma"], ins)
            # the end-of-stream token sits one line further down
            if got != exp:
                i = 0
                while i < min(len(got), len(exp)) and got[i] == exp[i]:
                    i += 1
                tk = (got[i] if i < len(got) else (exp[i] if i < len(exp) else "[end")).split("(")[0].split(":")[0].lstrip("[").rstrip("]")
                res["fail"] = (
                    "tokens-differ:" + tk,
                    {"pragma_at_line": pl, "first_difference_index": i, "with_pragma": got[i : i + 3], "expected_shifted": exp[i : i + 3]},
                )
                break
        r = _scan(text2)
        res["feeds"] += 1
        if r is None:
            res["fail"] = ("scan-error-with-pragma", {"pragma": pragma, "at_line": pl})
            break
        F2, inline = r

        def s(l):
            return l + 1 if l >= pl else l

        shifted = [(s(l), c, ru, d) for (l, c, ru, d) in F]
        if ins == len(lines):
            # the pragma line is now the last line of the file: where (and whether) the
            # end-of-file rule MD047 reports legitimately changes; it is left out here
            shifted = [f for f in shifted if f[2] != "MD047"]
            F2 = [f for f in F2 if f[2] != "MD047"]
        supp_lines = set(range(pl + 1, pl + 1 + (N or 0))) if ok else set()
        exp_f = [f for f in shifted if not (f[2] in named and f[0] in supp_lines)]
        expected_suppressions += len(shifted) - len(exp_f)
        if sorted(F2) != sorted(exp_f):
            extra = sorted(set(F2) - set(exp_f))
            missing = sorted(set(exp_f) - set(F2))
            on_pragma = [f for f in extra if f[0] == pl]
            if on_pragma and len(on_pragma) == len(extra) and not missing:
                sig = "reported-on-pragma-line:" + "+".join(sorted({f[2] for f in on_pragma}))
            else:
                sig = "failures-differ:" + "+".join(sorted({f[2] for f in extra + missing}))
            res["fail"] = (sig, {"pragma": pragma, "at_line": pl, "unexpected": extra, "missing": missing})
            break
        exp_inline = len(base_inline) + (0 if ok else 1)
        if len(inline) != exp_inline:
            res["fail"] = (
                "pragma-error-reporting",
                {"pragma": pragma, "well_formed": ok, "inline_errors": inline},
            )
            break
        if not ok and not any(l.startswith(f"t.md:{pl}:1: INLINE:") for l in inline):
            res["fail"] = ("pragma-error-position", {"pragma": pragma, "inline_errors": inline, "expected_line": pl})
            break
    if res["fail"] is None and firing:
        # two pragmas: a disable-num-lines range for the firing rules and, inside that range, a
        # disable-next-line for another (quiet) rule - the range must still apply on the covered lines
        ids = ",".join(sorted(x.lower() for x in firing))
        p1 = f"<!-- pyml disable-num-lines 3 {ids}-->"
        p2 = f"<!-- pyml disable-next-line {QUIET_RULE}-->"
        new_lines = list(lines[:ins]) + [p1, p2] + list(lines[ins:])
        r = _scan("\n".join(new_lines))
        res["feeds"] += 1
        if r is not None:
            F2, inline = r
            shifted = [(l + 2 if l >= pl else l, c, ru, d) for (l, c, ru, d) in F]
            covered = {pl + 2, pl + 3}
            exp_f = [f for f in shifted if f[0] not in covered]
            if ins == len(lines):
                exp_f = [f for f in exp_f if f[2] != "MD047"]
                F2 = [f for f in F2 if f[2] != "MD047"]
            got = [f for f in F2 if f[0] not in (pl, pl + 1)]
            expected_suppressions += len(shifted) - len(exp_f)
            if sorted(got) != sorted(exp_f) and sorted(F2) != sorted(exp_f):
                extra = sorted(set(got) - set(exp_f))
                missing = sorted(set(exp_f) - set(got))
                res["fail"] = ("two-pragmas:failures-differ:" + "+".join(sorted({f[2] for f in extra + missing})), {"pragmas": [p1, p2], "at_line": pl, "unexpected": extra, "missing": missing})
    res["states"] = states
    res["nontrivial"] = expected_suppressions > 0
    res["count"] = {"expected_suppressions": expected_suppressions}
    res["outcome"] = res["fail"][0] if res["fail"] else ("holds:" + ",".join(sorted(firing)))
    return res


def classify(key, sig, detail):
    if sig.startswith("failures-differ"):
        return sig, f"inserting a pragma line changes reports it does not name ({sig.split(':', 1)[1]}): not the shifted failures minus the suppressed ones"
    if sig.startswith("reported-on-pragma-line"):
        return sig, f"a failure is reported on the pragma line itself ({sig.split(':', 1)[1]})"
    if sig.startswith("tokens-differ"):
        return sig, "the document does not parse as if the pragma line had been deleted (tokens differ beyond the one-line shift)"
    return sig, f"pragma contract broken: {sig}"


def run(tier, return_info=False):
    rc, info = sweep.run_doc_check(sys.modules[__name__], tier)
    return info if return_info else rc


def replay(path):
    return sweep.replay_doc(sys.modules[__name__], path)
