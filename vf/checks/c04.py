"""C04 - well-formed token stream (DESIGN 3, C04): independent stack automaton."""
import sys

from .. import parser, spaces, sweep

PROP = "C04"
RULE = (
    "same spaces as C01 (parseable documents), each parsed with and without the end-of-stream token; "
    "non-trivial = stream in which the automaton's stack reached depth >= 3"
)

CONTAINER_OPEN = {"block-quote", "ulist", "olist"}
LISTS = {"ulist", "olist"}
LEAF_OPEN = {"para", "atx", "setext", "fcode-block", "icode-block", "html-block"}
LEAF_SINGLE = {"BLANK", "tbreak", "link-ref-def", "front-matter"}
INLINE_OPEN = {"emphasis", "link"}
INLINE_SINGLE = {
    "text",
    "icode-span",
    "hard-break",
    "uri-autolink",
    "email-autolink",
    "raw-html",
    "image",
    "task-list",
}


def klass(name):
    if name in CONTAINER_OPEN or name == "li":
        return "container"
    if name in LEAF_OPEN or name in LEAF_SINGLE:
        return "leaf"
    if name in INLINE_OPEN or name in INLINE_SINGLE:
        return "inline"
    return None


def automaton(tokens, expect_eos):
    """Returns (None, maxdepth) if well formed, else (message, maxdepth)."""
    stack = []  # (name, token)
    maxdepth = 0
    n = len(tokens)
    seen_eos = False
    for i, t in enumerate(tokens):
        name = t.token_name
        if name == "pragma":
            if i != n - 1:
                return f"pragma token at index {i} is not last", maxdepth
            continue
        if name == "end-of-stream":
            if seen_eos:
                return "two end-of-stream tokens", maxdepth
            seen_eos = True
            if stack:
                return f"end-of-stream with {[s[0] for s in stack]} still open", maxdepth
            rest = [x.token_name for x in tokens[i + 1 :]]
            if rest not in ([], ["pragma"]):
                return f"tokens after end-of-stream: {rest}", maxdepth
            continue
        if seen_eos:
            return f"token {name} after end-of-stream", maxdepth
        if name.startswith("end-"):
            base = name[4:]
            if not stack:
                return f"{name} at index {i} with nothing open", maxdepth
            top_name, top_tok = stack[-1]
            if top_name != base:
                return f"{name} at index {i} closes {top_name}", maxdepth
            start = getattr(t, "start_markdown_token", None)
            if start is not top_tok:
                return f"{name} at index {i} does not refer to the open {top_name} token", maxdepth
            stack.pop()
            continue
        k = klass(name)
        if k is None:
            return f"unknown token kind {name}", maxdepth
        parent = stack[-1][0] if stack else None
        pk = klass(parent) if parent else "document"
        if k == "container":
            if pk not in ("document", "container"):
                return f"container token {name} at index {i} inside {parent}", maxdepth
            if name == "li" and parent not in LISTS:
                return f"li at index {i} directly inside {parent}", maxdepth
        elif k == "leaf":
            if name == "BLANK" and parent == "html-block":
                # a blank *line of content* of an HTML block (suite-pinned token format,
                # e.g. spec examples with <pre>/<script> blocks); see DESIGN 3 C04
                continue
            if pk not in ("document", "container"):
                return f"leaf token {name} at index {i} inside {parent}", maxdepth
            if name == "front-matter" and i != 0:
                return "front-matter token not first", maxdepth
        else:
            if parent is None or (parent not in LEAF_OPEN and parent not in INLINE_OPEN):
                return f"inline token {name} at index {i} inside {parent}", maxdepth
        if name in CONTAINER_OPEN or name in LEAF_OPEN or name in INLINE_OPEN:
            stack.append((name, t))
            maxdepth = max(maxdepth, len(stack))
    if stack:
        return f"left open at end of document: {[s[0] for s in stack]}", maxdepth
    if expect_eos and not seen_eos:
        return "no end-of-stream token", maxdepth
    return None, maxdepth


def space(tier):
    return spaces.parser_space(tier)


def frontier(tier):
    return (spaces.SIGMA_WIDE, 8 if tier == "thorough" else 6)


def evaluate(text):
    lines = text.split("\n")
    # the stream as the application requests it (with the end-of-stream token)
    st, v, w, states = parser.parse_with_states(lines, eos=True)
    res = {"states": [s for s in states if s is not None], "feeds": len(lines), "fail": None}
    if st != "ok":
        res["outcome"] = "parse-failed"
        res["count"] = {"skipped_parse_failed": 1}
        return res
    msg, depth = automaton(v, True)
    res["nontrivial"] = depth >= 3
    if msg is not None:
        import re as _re

        sig = "malformed:" + _re.sub(r" at index \d+", "", msg)[:80]
        res["fail"] = (sig, msg)
        res["outcome"] = sig
    else:
        res["outcome"] = f"ok-depth{depth}"
    return res


def run(tier, return_info=False):
    rc, info = sweep.run_doc_check(sys.modules[__name__], tier)
    return info if return_info else rc


def replay(path):
    return sweep.replay_doc(sys.modules[__name__], path)


def classify(key, sig, detail):
    import re

    cls = re.sub(r" at index \d+", "", str(detail))
    return cls, f"token stream is not well nested: {cls}"
