"""C14 - the rule engine honours the plugin life-cycle for every file (DESIGN 3, C14)."""
import itertools
import json
import os
import re
import sys

from .. import app, common, parser, reclog, spaces, sweep

PROP = "C14"
CHUNK = 150
RULE = (
    "recorder plugins (all 16 subsets of {start, token, line, complete} callbacks) x supports-fix {no, level 0, middle, above every built-in} x enabled/disabled x "
    "alone / with the default set x {scan, fix, scan-stdin} over edge documents; the full recorder over every document of B(core,2); sequences of 2-3 files; "
    "non-trivial = run in which the recorder logged at least one token and one line"
)
STATES_MEANING = "states of the life-cycle automaton (idle, started, in-tokens, in-lines, completed) x pass kind visited; transitions = callback deliveries checked"
ASSUMPTIONS = [
    "life-cycle from docs/developer.md: starting_new_file, next_token*, next_line*, completed_file per scanned file; in fix mode every pass a rule takes part in has this shape; "
    "repeated starting_new_file with nothing in between is accepted as stuttering and counted",
    "the tokens a rule must receive are those of a parse of the same content by the same parser (this check is about delivery, C03 about the parse)",
]

SPECIAL = ["a\x0cb\n", "a\x0bb", "a\x85b\n", "a\u2028b\u2029c\n", "a\x1cb\x1dc\x1ed\n", "a\rb\n", "", "a", "a\n", "\n", "a\nb", "a\nb\n", "#  a  \n\n* b\n+ c", "<!-- pyml disable-next-line md001-->", "<!-- pyml disable-next-line md019-->\n#  a\n", "# a\n\n### b\n", "- a\n\n\n- b\n", "a\tb\n"]
POOL = ["# a\n", "#  a  \n\n* b\n+ c", "a", "<!-- pyml disable-next-line md019-->\n#  a\n", ""]
FIXCFG = [("nofix", False, 0), ("fix0", True, 0), ("fix3", True, 3), ("fix9", True, 9)]
VARIANTS = ["".join(k + str(b) for k, b in zip("stlc", bits)) for bits in itertools.product([0, 1], repeat=4)]
FULL = "s1t1l1c1"


class LifeSpace(spaces.Space):
    SINGLE_DELETION = False

    def __init__(self, tier):
        self.name = f"lifecycle-{tier}"
        cases = []
        for d in SPECIAL:
            for v in VARIANTS:
                for fc in FIXCFG:
                    for mode in ("scan", "fix", "scan-stdin"):
                        for en in (True, False):
                            for company in ("alone", "default"):
                                if not en and v != FULL:
                                    continue
                                cases.append(((d,), mode, v, fc[0], en, company))
        core = spaces.block_space("core", 2 if tier == "quick" else 3)
        for i in range(len(core)):
            d = "\n".join(core.case(i)[1])
            for fc in ("nofix", "fix0", "fix9"):
                for mode in ("scan", "fix"):
                    cases.append(((d,), mode, FULL, fc, True, "default"))
        for n in (2, 3):
            for seq in itertools.product(range(len(POOL)), repeat=n):
                for v in (FULL, "s0t1l1c0"):
                    for fc in ("nofix", "fix0", "fix9"):
                        for mode in ("scan", "fix"):
                            cases.append((tuple(POOL[i] for i in seq), mode, v, fc, True, "default"))
        self.cases = cases

    def __len__(self):
        return len(self.cases)

    def case(self, i):
        return (self.name, self.cases[i])

    def key(self, case):
        return json.dumps(case[1])

    def text(self, case):
        return self.key(case)

    def payload(self, case):
        return case[1]

    def payload_from_key(self, key):
        k = json.loads(key)
        return (tuple(k[0]), k[1], k[2], k[3], k[4], k[5])

    def subcases(self, case):
        docs, mode, v, fc, en, company = case[1]
        # fewer files; fewer lines in a single file
        if len(docs) > 1:
            for r in range(len(docs) - 1, 0, -1):
                for idx in itertools.combinations(range(len(docs)), r):
                    yield (self.name, (tuple(docs[i] for i in idx), mode, v, fc, en, company))
        else:
            lines = docs[0].split("\n")
            n = len(lines)
            for r in range(n - 1, 0, -1):
                for idx in itertools.combinations(range(n), r):
                    yield (self.name, (("\n".join(lines[i] for i in idx),), mode, v, fc, en, company))

    def describe(self):
        return {"name": self.name, "size": len(self.cases)}


def space(tier):
    return LifeSpace(tier)


def _tokens(text):
    st, v, _w = parser.parse(text, eos=True)
    if st != "ok":
        return None
    return [str(t) for t in v if t.token_name != "pragma"]


_GRAMMAR = {}


def _regex(defined):
    """life-cycle grammar projected on the callbacks the class defines"""
    if defined not in _GRAMMAR:
        g = "((S+)(T*)(L*)(C))*S*"
        for k in "STLC":
            if k not in defined:
                g = g.replace(f"({k}+)", "").replace(f"({k}*)", "").replace(f"({k})", "").replace(f"{k}*", "")
        _GRAMMAR[defined] = re.compile("^" + g + "$")
    return _GRAMMAR[defined]


def _numbering(lines):
    """line events of one or more consecutive passes (passes cannot be told apart when the class
    defines neither start nor complete): every pass must be numbered 1, 2, 3, ..."""
    expect = 1
    for e in lines:
        if e[1] == expect:
            expect += 1
        elif e[1] == 1:
            expect = 2
        else:
            return f"lines delivered in a fix pass are numbered {[x[1] for x in lines][:6]} (expected 1, 2, 3, ... per pass)"
    return None


def check_log(log, docs_sorted, mode, variant, fixcfg, enabled, final_contents):
    """Returns (message|None, stats)."""
    defined = "".join(k.upper() for k, b in zip("stlc", variant[1::2]) if b == "1")
    kinds = "".join(e[0] for e in log)
    stats = {"events": len(log), "stutter": 0}
    if not enabled:
        return ("a disabled rule received callbacks: " + kinds[:40] if log else None), stats
    for k in set(kinds):
        if k not in defined:
            return f"callback {k} delivered although the class does not define it", stats
    _n, supports_fix, _lvl = next(f for f in FIXCFG if f[0] == fixcfg)
    if mode in ("scan", "scan-stdin"):
        exp = []
        for text in docs_sorted:
            # files are read with universal newlines: CR-LF and a lone CR end a line like LF
            text = text.replace("\r\n", "\n").replace("\r", "\n")
            toks = _tokens(text)
            if toks is None:
                return None, stats  # parse failure: C01/C15
            lines = text.split("\n")
            if "S" in defined:
                exp.append(("S",))
            if "T" in defined:
                exp += [("T", t) for t in toks]
            if "L" in defined:
                exp += [("L", i + 1, l) for i, l in enumerate(lines)]
            if "C" in defined:
                exp.append(("C", len(lines) + 1))
        got = [(e[0],) if e[0] == "S" else e for e in log]
        if got != exp:
            i = 0
            while i < min(len(got), len(exp)) and got[i] == exp[i]:
                i += 1
            return (
                f"scan life-cycle differs at event {i}: got {got[i] if i < len(got) else 'end'!r}, expected {exp[i] if i < len(exp) else 'end'!r}",
                stats,
            )
        return None, stats
    # fix mode
    if not supports_fix:
        if kinds.strip("S"):
            return "a rule without fix support took part in a fix pass: " + kinds[:60], stats
        stats["stutter"] = len(kinds)
        return None, stats
    if not _regex(defined).match(kinds):
        return f"fix-mode callback order {kinds[:80]!r} is not (S+ T* L* C)* projected on {defined}", stats
    stats["stutter"] = len(re.findall(r"SS", kinds))
    # content checks
    candidates = set(docs_sorted) | set(final_contents)
    for e in log:
        if e[0] == "S":
            candidates.update(v for v in e[1].values() if v is not None)
    cand_tokens = {}
    for c in candidates:
        t = _tokens(c)
        if t is not None:
            cand_tokens[tuple(t)] = c
    i = 0
    n = len(log)
    while i < n:
        if log[i][0] == "T":
            j = i
            while j < n and log[j][0] == "T":
                j += 1
            run = tuple(e[1] for e in log[i:j])
            k = j
            lines = []
            while k < n and log[k][0] == "L":
                lines.append(log[k])
                k += 1
            if lines:
                msg = _numbering(lines)
                if msg:
                    return msg, stats
                content = "\n".join(e[2] for e in lines)
                toks = _tokens(content)
                # the tokens of a pass are those of the content the pass started from; lines may
                # already carry the fixes of rules earlier in the same pass (streaming design), so
                # the run must be the token list of a known content or of the delivered lines
                had_pragma = any(t.startswith("[pragma:") for t in run)
                rest = tuple(t for t in run if not t.startswith("[pragma:"))
                progress = True
                while progress and rest not in cand_tokens and (toks is None or rest != tuple(toks)):
                    progress = False
                    for ct in cand_tokens:
                        if ct and rest[: len(ct)] == ct and len(rest) > len(ct):
                            rest = rest[len(ct) :]
                            progress = True
                            break
                if "S" in defined and rest not in cand_tokens and (toks is None or rest != tuple(toks)):
                    # (without start events the content a pass started from is unknown to the harness)
                    return "tokens delivered in a fix pass are neither those of the file at the start of a pass nor those of the lines delivered", stats
                if had_pragma:
                    return "pragma token delivered to rules in a fix pass (scan mode strips it)", stats
            i = k
        elif log[i][0] == "L":
            j = i
            while j < n and log[j][0] == "L":
                j += 1
            msg = _numbering(log[i:j])
            if msg:
                return msg, stats
            i = j
        else:
            i += 1
    return None, stats


def evaluate(payload):
    docs, mode, variant, fixcfg, enabled, company = payload
    res = {"fail": None, "feeds": 0}
    _n, supports_fix, level = next(f for f in FIXCFG if f[0] == fixcfg)
    files = {f"f{i}.md": d for i, d in enumerate(docs)}
    plugin = os.path.join(common.PLUGIN_DIR, f"rec{variant}.py")
    pre = ["--add-plugin", plugin]
    t = app.rule_table()
    if company == "alone":
        pre += ["-d", ",".join(sorted(r for r, v in t.items() if v["enabled_default"]))]
    if not enabled:
        pre += ["-d", "VRF900"] if company != "alone" else []
        if company == "alone":
            pre[-1] = pre[-1] + ",vrf900"
    with app.Sandbox(files) as sb:
        names = sorted(files)
        reclog.reset(fix=supports_fix, level=level, watch=[os.path.join(sb.cwd, n) for n in names])
        if mode == "scan-stdin":
            r = app.run_main(pre + ["scan-stdin"], sb, stdin_text=docs[0])
            docs_sorted = [docs[0]]
        else:
            r = app.run_main(pre + [mode] + names, sb)
            docs_sorted = [files[n] for n in names]
        log = list(reclog.LOG)
        final = [sb.read(n).decode("utf-8", "replace") for n in names]
    reclog.reset()
    res["feeds"] = len(log)
    if r.rc in ("timeout", "exception") or "Error" in r.err:
        res["outcome"] = "run-error"
        res["count"] = {"skipped_run_error": 1}
        return res
    msg, stats = check_log(log, docs_sorted, mode, variant, fixcfg, enabled, final)
    kinds = "".join(e[0] for e in log)
    res["nontrivial"] = "T" in kinds and "L" in kinds
    res["states"] = [(mode, fixcfg, re.sub(r"(.)\1+", r"\1+", kinds)[:40])]
    res["count"] = {"callback_events": len(log), "stuttering_starts": stats["stutter"]}
    if msg:
        cls = re.sub(r"\d+", "N", msg.split(":")[0])[:70]
        res["fail"] = (f"{mode}:{cls}", msg)
    res["outcome"] = res["fail"][0] if res["fail"] else f"{mode}:{fixcfg}:ok"
    return res


def classify(key, sig, detail):
    return sig, f"plugin life-cycle violated ({sig})"


def run(tier, return_info=False):
    rc, info = sweep.run_doc_check(sys.modules[__name__], tier)
    return info if return_info else rc


def replay(path):
    return sweep.replay_doc(sys.modules[__name__], path)
