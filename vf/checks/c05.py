"""C05 - token positions are true (DESIGN 3, C05): range, order, and an opener table keyed by
token kind that says which source text must be found at (line, column)."""
import sys

from .. import parser, spaces, sweep
from .c04 import klass

PROP = "C05"
RULE = (
    "C01's spaces (parseable documents), every token that carries a position; non-trivial = document "
    "with at least one positioned token inside a container or after a multi-line element"
)
ASSUMPTIONS = [
    "column convention (established on the pinned tree, not documented): columns count on the tab-expanded line "
    "(4-column stops); a position is accepted if it is right on the raw line or on the expanded line",
]


def expand(line):
    out = []
    for ch in line:
        if ch == "\t":
            out.append(" " * (4 - (len(out) % 4)))
            out = list("".join(out))
        else:
            out.append(ch)
    return "".join(out)


def _char_at(lines, exp, ln, col):
    """characters at (ln, col) on the raw and on the expanded line ('' = one past the end)"""
    raw = lines[ln - 1]
    ex = exp[ln - 1]
    r = raw[col - 1] if col - 1 < len(raw) else ""
    e = ex[col - 1] if col - 1 < len(ex) else ""
    return r, e


def _first_source_char(tok_text):
    """first character the text token must show in the source (None = unknown / do not check)"""
    if not tok_text:
        return None
    c = tok_text[0]
    if c == "\a":
        return tok_text[1] if len(tok_text) > 1 else None
    if c == "\b":
        return "\\"
    if c in "\x02\x03\x04\x05\x06\x07":
        return None
    return c


def check_positions(text, tokens):
    """Returns (message|None, stats)"""
    lines = text.split("\n")
    exp = [expand(l) for l in lines]
    n = len(lines)
    last_block_line = 0
    stats = {"positioned": 0, "raw_only": 0, "expanded_only": 0}
    for i, t in enumerate(tokens):
        name = t.token_name
        if name in ("end-of-stream", "pragma"):
            continue
        ln, col = t.line_number, t.column_number
        if name.startswith("end-") and ln == 0 and col == 0:
            continue
        stats["positioned"] += 1
        if not 1 <= ln <= n:
            return f"{t} at index {i}: line {ln} outside 1..{n}", stats
        width = max(len(exp[ln - 1]), len(lines[ln - 1]))
        if not 1 <= col <= width + 1:
            return f"{t} at index {i}: column {col} outside 1..{width + 1}", stats
        k = klass(name)
        if k in ("container", "leaf"):
            if ln < last_block_line:
                return f"{t} at index {i}: block token at line {ln} after one at line {last_block_line}", stats
            last_block_line = ln
        r, e = _char_at(lines, exp, ln, col)

        def at(chars, allow_end=False):
            ok_r = (r != "" and r in chars) or (allow_end and r == "")
            ok_e = (e != "" and e in chars) or (allow_end and e == "")
            if ok_r and not ok_e:
                stats["raw_only"] += 1
            if ok_e and not ok_r:
                stats["expanded_only"] += 1
            return ok_r or ok_e

        bad = None
        if name == "atx":
            if not at("#"):
                bad = "'#'"
        elif name == "setext":
            if not at("=-"):
                bad = "the underline character"
            else:
                oln, ocol = t.original_line_number, t.original_column_number
                if not (1 <= oln <= n and 1 <= ocol <= len(exp[oln - 1]) + 1):
                    return f"{t} at index {i}: original position ({oln},{ocol}) out of range", stats
                r2, e2 = _char_at(lines, exp, oln, ocol)
                if (r2 in ("", " ", "\t")) and (e2 in ("", " ", "\t")):
                    return f"{t} at index {i}: original position ({oln},{ocol}) is not the first text character", stats
        elif name == "tbreak":
            if not at("*-_"):
                bad = "a thematic break character"
        elif name == "fcode-block":
            if not at("`~"):
                bad = "a fence character"
        elif name == "icode-block":
            ex = exp[ln - 1]
            if col < 5 or ex[col - 5 : col - 1] != "    ":
                bad = "the first column after a 4-column indent"
        elif name == "html-block":
            # an HTML block is passed through verbatim *including its indentation*, so its own
            # text starts at the indentation: accept '<' after up to 3 columns of whitespace
            ex = exp[ln - 1][col - 1 :]
            if not ex.lstrip(" ").startswith("<") or len(ex) - len(ex.lstrip(" ")) > 3:
                bad = "'<' (after at most 3 columns of indentation)"
        elif name == "link-ref-def":
            if not at("["):
                bad = "'['"
        elif name == "ulist":
            if not at("-+*"):
                bad = "a bullet marker"
        elif name == "olist":
            if not at("0123456789"):
                bad = "a digit"
        elif name == "li":
            if not at("-+*0123456789"):
                bad = "a list marker"
        elif name == "block-quote":
            if not at(">"):
                bad = "'>'"
        elif name == "para":
            if (r in ("", " ", "\t")) and (e in ("", " ", "\t")):
                bad = "the first character of the paragraph"
        elif name == "text":
            c = _first_source_char(t.token_text)
            if c is None:
                pass
            elif c == "\n":
                # position of a text that starts with a line break: at or after the end of the
                # line's visible text (only trailing whitespace may follow)
                rest = lines[ln - 1][col - 1 :] if col - 1 <= len(lines[ln - 1]) else ""
                rest_e = exp[ln - 1][col - 1 :]
                if rest.strip(" \t") != "" and rest_e.strip(" \t") != "":
                    bad = "the end of the line (text starting with a line break)"
            elif not at(c):
                bad = f"{c!r} (first character of the text)"
        elif name == "icode-span":
            if not at("`"):
                bad = "'`'"
        elif name == "link":
            if not at("["):
                bad = "'['"
        elif name == "image":
            if not at("!"):
                bad = "'!'"
        elif name in ("uri-autolink", "email-autolink", "raw-html"):
            if not at("<"):
                bad = "'<'"
        elif name in ("emphasis", "end-emphasis"):
            if not at("*_~"):
                bad = "an emphasis delimiter"
        elif name == "hard-break":
            if not at("\\ "):
                bad = "a backslash or space"
        elif name == "BLANK":
            pass
        if bad is not None:
            return (
                f"{t} at index {i}: source at ({ln},{col}) is {r!r} (expanded {e!r}), expected {bad}; "
                f"line={lines[ln - 1]!r}"
            ), stats
    return None, stats


def space(tier):
    return spaces.parser_space(tier)


def frontier(tier):
    return (spaces.SIGMA_WIDE, 8 if tier == "thorough" else 6)


def evaluate(text):
    lines = text.split("\n")
    st, v, w, states = parser.parse_with_states(lines, eos=True)
    res = {"states": [s for s in states if s is not None], "feeds": len(lines), "fail": None}
    if st != "ok":
        res["outcome"] = "parse-failed"
        res["count"] = {"skipped_parse_failed": 1}
        return res
    msg, stats = check_positions(text, v)
    names = {t.token_name for t in v}
    res["nontrivial"] = bool(names & {"block-quote", "ulist", "olist"}) or any(
        t.token_name == "text" and "\n" in t.token_text for t in v
    )
    res["count"] = {
        "positioned_tokens": stats["positioned"],
        "accepted_on_raw_line_only": stats["raw_only"],
        "accepted_on_expanded_line_only": stats["expanded_only"],
    }
    if msg is not None:
        kind = msg.split(":", 1)[0].split("(")[0].lstrip("[")
        what = "range" if "outside" in msg else ("order" if "block token at line" in msg else "opening-text")
        res["fail"] = (f"position:{kind}:{what}", msg)
        res["outcome"] = f"bad-position:{kind}:{what}"
    else:
        res["outcome"] = "ok:" + ",".join(sorted(names))
    return res


def run(tier, return_info=False):
    rc, info = sweep.run_doc_check(sys.modules[__name__], tier)
    return info if return_info else rc


def replay(path):
    return sweep.replay_doc(sys.modules[__name__], path)


def classify(key, sig, detail):
    d = str(detail)
    if "outside" in d:
        what = "line/column outside the source"
    elif "block token at line" in d:
        what = "block tokens not in non-decreasing line order"
    else:
        what = "source text at the position is not the element's opening text"
    kind = sig.split(":")[1]
    return f"{kind}-{what}", f"position of a {kind} token is wrong: {what}"
