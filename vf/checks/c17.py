"""C17 - rule selection and settings follow the documented precedence of layers (DESIGN 3, C17)."""
import itertools
import json
import re
import sys

from .. import app, spaces, sweep

PROP = "C17"
CHUNK = 300
RULE = (
    "part A: enabled flag in {unset,true,false} in each of the four file/--set layers x command line {none,-e,-d,both} x {default-enabled rule, default-disabled rule} x "
    "naming {id, each alias} x default-file flavour {.pymarkdown JSON, .yaml, .yml} x --config flavour {JSON, YAML, TOML}; each configuration replayed three ways "
    "(plugins list, plugins info, scan of a probe document); part B: every configuration item of every rule x {valid, out of range, wrong type} x layer x strict {off, flag, mode.strict-config}, "
    "plus valid-vs-valid precedence for each adjacent pair of layers; non-trivial = configuration in which at least two layers mention the rule"
)
STATES_MEANING = "distinct (effective enabled / effective value, deciding layer) model states; transitions = application executions replaying a model state"
ASSUMPTIONS = [
    "precedence model from newdocs/src/advanced_configuration.md: command-line -d, -e, --set, --config, default file, pyproject.toml, rule default; "
    "invalid or wrongly typed value = not mentioned (default applies) unless strict, where the run stops with exit 1",
    "out-of-range sample values are only such that are invalid under any reading of the documentation (negative counts/levels, style names not in the documented list)",
]

V3 = [None, True, False]
CL = ["none", "e", "d", "both"]
DEFAULT_FLAVOURS = [".pymarkdown", ".pymarkdown.yaml", ".pymarkdown.yml"]
CONFIG_FLAVOURS = ["c.json", "c.yaml", "c.toml"]

# rule, default enabled, probe document that makes exactly this rule fire, names
RULES = {
    "md001": (True, "# a\n\n### b\n"),
    "md002": (False, "## a\n"),
}


def _names(rule):
    return [rule] + app.rule_table()[rule]["names"]


def _dump(flavour, tree):
    """serialise {'plugins': {name: {...}}} (or with mode) in the flavour of the file name"""
    if flavour.endswith(".json") or flavour == ".pymarkdown":
        return json.dumps(tree)
    if flavour.endswith((".yaml", ".yml")):
        out = []

        def rec(d, ind):
            for k, v in d.items():
                if isinstance(v, dict):
                    out.append(" " * ind + f"{k}:")
                    rec(v, ind + 2)
                else:
                    out.append(" " * ind + f"{k}: {_yaml(v)}")

        rec(tree, 0)
        return "\n".join(out) + "\n"
    if flavour.endswith(".toml"):
        out = []

        def rec(d, path):
            scal = {k: v for k, v in d.items() if not isinstance(v, dict)}
            if scal and path:
                out.append("[" + ".".join(path) + "]")
                for k, v in scal.items():
                    out.append(f"{k} = {_toml(v)}")
            for k, v in d.items():
                if isinstance(v, dict):
                    rec(v, path + [k])

        rec(tree, [])
        return "\n".join(out) + "\n"
    raise ValueError(flavour)


def _yaml(v):
    if isinstance(v, bool):
        return "true" if v else "false"
    if isinstance(v, int):
        return str(v)
    return json.dumps(v)


_toml = _yaml


def _pyproject(tree):
    out = ["[tool.pymarkdown]"]

    def rec(d, path):
        for k, v in d.items():
            if isinstance(v, dict):
                rec(v, path + [k])
            else:
                out.append(".".join(path + [k]) + " = " + _toml(v))

    rec(tree, [])
    return "\n".join(out) + "\n"


def _setarg(path, v):
    if isinstance(v, bool):
        return f"{path}=$!{v}"
    if isinstance(v, int):
        return f"{path}=$#{v}"
    return f"{path}={v}"


def build(layers, name, item, dflav=".pymarkdown", cflav="c.json", extra_mode=None):
    """layers = dict(set=, config=, default=, pyproject=) values or None.  Returns (files, args)."""
    files, args = {}, []
    if layers.get("pyproject") is not None:
        files["pyproject.toml"] = _pyproject({"plugins": {name: {item: layers["pyproject"]}}})
    if layers.get("default") is not None or extra_mode == "default":
        tree = {}
        if layers.get("default") is not None:
            tree["plugins"] = {name: {item: layers["default"]}}
        if extra_mode == "default":
            tree["mode"] = {"strict-config": True}
        files[dflav] = _dump(dflav, tree)
    if layers.get("config") is not None:
        files[cflav] = _dump(cflav, {"plugins": {name: {item: layers["config"]}}})
        args += ["--config", cflav]
    if layers.get("set") is not None:
        args += ["--set", _setarg(f"plugins.{name}.{item}", layers["set"])]
    return files, args


class PrecSpace(spaces.Space):
    SINGLE_DELETION = False

    def __init__(self, tier):
        self.name = f"precedence-{tier}"
        cases = []
        for rule in RULES:
            for ni in range(3):
                for s, c, d, p in itertools.product(V3, V3, V3, V3):
                    for cl in CL:
                        flavs = list(itertools.product(range(3), range(3)))
                        for df, cf in flavs:
                            # flavours only matter when that layer is present
                            if (d is None and df != 0) or (c is None and cf != 0):
                                continue
                            cases.append(("A", rule, ni, (s, c, d, p), cl, df, cf))
        self.cases = cases + _item_cases()

    def __len__(self):
        return len(self.cases)

    def case(self, i):
        return (self.name, self.cases[i])

    def key(self, case):
        return json.dumps(case[1])

    def text(self, case):
        return self.key(case)

    def payload(self, case):
        return case[1]

    def payload_from_key(self, key):
        return _tuplify(json.loads(key))

    def subcases(self, case):
        c = case[1]
        if c[0] != "A":
            return
        _a, rule, ni, lay, cl, df, cf = c
        present = [i for i, v in enumerate(lay) if v is not None]
        opts = [("l", i) for i in present] + ([("cl", 0)] if cl != "none" else [])
        for r in range(1, len(opts) + 1):
            for drop in itertools.combinations(opts, r):
                nl = list(lay)
                ncl = cl
                for k, i in drop:
                    if k == "l":
                        nl[i] = None
                    else:
                        ncl = "none"
                ndf = df if nl[2] is not None else 0
                ncf = cf if nl[1] is not None else 0
                yield (self.name, ("A", rule, ni, tuple(nl), ncl, ndf, ncf))

    def describe(self):
        return {"name": self.name, "size": len(self.cases), "part_A": sum(1 for c in self.cases if c[0] == "A"), "part_B": sum(1 for c in self.cases if c[0] != "A")}


def _tuplify(x):
    return tuple(_tuplify(i) for i in x) if isinstance(x, list) else x


def space(tier):
    return PrecSpace(tier)


# ------------------------------------------------------------------ part B: configuration items

# valid non-default sample, out-of-range sample (None = none that is invalid under every reading)
ITEM_SAMPLES = {
    ("md002", "level"): (2, -1),
    ("md003", "style"): ("atx", "bogus"),
    ("md003", "allow-setext-update"): (True, None),
    ("md004", "style"): ("dash", "bogus"),
    ("md007", "indent"): (3, -1),
    ("md007", "start_indented"): (True, None),
    ("md009", "br_spaces"): (3, -1),
    ("md009", "strict"): (True, None),
    ("md009", "list_item_empty_lines"): (True, None),
    ("md010", "code_blocks"): (False, None),
    ("md012", "maximum"): (2, -1),
    ("md013", "line_length"): (20, -1),
    ("md013", "code_block_line_length"): (20, -1),
    ("md013", "heading_line_length"): (20, -1),
    ("md013", "code_blocks"): (False, None),
    ("md013", "headings"): (False, None),
    ("md013", "strict"): (True, None),
    ("md013", "stern"): (True, None),
    ("md022", "lines_above"): (2, -1),
    ("md022", "lines_below"): (2, -1),
    ("md024", "siblings_only"): (True, None),
    ("md024", "allow_different_nesting"): (True, None),
    ("md025", "level"): (2, -1),
    ("md025", "front_matter_title"): ("subject", None),
    ("md026", "punctuation"): (".,", None),
    ("md029", "style"): ("ordered", "bogus"),
    ("md029", "allow_extended_start_values"): (True, None),
    ("md030", "ul_single"): (2, -1),
    ("md030", "ul_multi"): (2, -1),
    ("md030", "ol_single"): (2, -1),
    ("md030", "ol_multi"): (2, -1),
    ("md031", "list_items"): (False, None),
    ("md033", "allow_first_image_element"): (False, None),
    ("md035", "style"): ("---", None),
    ("md036", "punctuation"): (".,", None),
    ("md041", "level"): (2, -1),
    ("md041", "front_matter_title"): ("subject", None),
    ("md044", "code_blocks"): (False, None),
    ("md044", "code_spans"): (False, None),
    ("md044", "names"): ("ParaSoft", None),
    ("md046", "style"): ("fenced", "bogus"),
    ("md048", "style"): ("backtick", "bogus"),
    ("pml101", "indent"): (3, -1),
}
LAYERS = ["set", "config", "default", "pyproject"]
STRICT = ["off", "flag", "mode"]


def _wrong_type(valid):
    if isinstance(valid, bool):
        return "abc"
    if isinstance(valid, int):
        return "abc"
    return 5


def _cross_cases():
    """part C: two layers that mention DIFFERENT rules: each must stay effective"""
    cases = []
    for lo, hi in itertools.permutations(LAYERS, 2):
        for df in range(3):
            for cf in range(3):
                if "default" not in (lo, hi) and df != 0:
                    continue
                if "config" not in (lo, hi) and cf != 0:
                    continue
                cases.append(("X", lo, hi, df, cf))
    return cases


def _item_cases():
    cases = _cross_cases()
    for (rule, item), (valid, bad) in sorted(ITEM_SAMPLES.items()):
        for layer in LAYERS:
            for strict in STRICT:
                for kind in ("valid", "range", "type"):
                    if kind == "range" and bad is None:
                        continue
                    cases.append(("B", rule, item, layer, strict, kind))
        for lo, hi in (("pyproject", "default"), ("default", "config"), ("config", "set")):
            cases.append(("P", rule, item, lo, hi))
    return cases


_info_defaults = {}


def _info(sb, args, rule):
    r = app.run_main(args + ["plugins", "info", rule], sb)
    vals = {}
    sec = False
    for l in r.out.splitlines():
        if l.strip().startswith("CONFIGURATION ITEM"):
            sec = True
            continue
        if sec and l.strip():
            m = re.match(r"^\s+(\S+)\s+(integer|boolean|string)\s+(.*)$", l)
            if m:
                vals[m.group(1)] = m.group(3).strip()
    return r, vals


def _show(v):
    if isinstance(v, bool):
        return str(v)
    if isinstance(v, int):
        return str(v)
    return json.dumps(v)


def _defaults(rule):
    if rule not in _info_defaults:
        with app.Sandbox() as sb:
            _r, vals = _info(sb, [], rule)
        _info_defaults[rule] = vals
    return _info_defaults[rule]


def _current_enabled(out, rule):
    for l in out.splitlines():
        p = l.split()
        if p and p[0] == rule:
            bools = [x for x in p if x in ("True", "False")]
            if len(bools) >= 2:
                return bools[1] == "True"
    return None


def evaluate(payload):
    c = payload
    res = {"fail": None, "feeds": 0}
    if c[0] == "A":
        _a, rule, ni, lay, cl, df, cf = c
        dflt, probe = RULES[rule]
        name = _names(rule)[ni % len(_names(rule))]
        s, cfg, d, p = lay
        files, args = build({"set": s, "config": cfg, "default": d, "pyproject": p}, name, "enabled", DEFAULT_FLAVOURS[df], CONFIG_FLAVOURS[cf])
        pre = []
        if cl in ("e", "both"):
            pre += ["-e", name]
        if cl in ("d", "both"):
            pre += ["-d", name]
        if cl in ("d", "both"):
            exp, layer = False, "cl-d"
        elif cl == "e":
            exp, layer = True, "cl-e"
        else:
            exp, layer = dflt, "rule-default"
            for nm, v in (("set", s), ("config", cfg), ("default", d), ("pyproject", p)):
                if v is not None:
                    exp, layer = v, nm
                    break
        files["p.md"] = probe
        res["states"] = [(rule, exp, layer)]
        res["nontrivial"] = sum(v is not None for v in lay) + (cl != "none") >= 2
        with app.Sandbox(files) as sb:
            r1 = app.run_main(pre + args + ["plugins", "list", rule], sb)
            got1 = _current_enabled(r1.out, rule)
            res["feeds"] += 1
            fail = None
            if r1.rc != 0 or got1 is None:
                fail = ("plugins-list-error", {"rc": r1.rc, "err": r1.err[-300:], "files": files, "args": pre + args})
            elif got1 != exp:
                fail = (f"enabled:{layer}-should-decide", {"expected": exp, "plugins_list": got1, "files": files, "args": pre + args})
            else:
                r2 = app.run_main(pre + args + ["scan", "p.md"], sb)
                res["feeds"] += 1
                fails, _ = app.parse_failures(r2.out)
                fired = any(f["rule"].lower() == rule for f in fails)
                if r2.err.strip():
                    fail = ("scan-error", {"err": r2.err[-300:], "files": files, "args": pre + args})
                elif fired != exp:
                    fail = (f"enabled:scan-disagrees-with-plugins-list", {"expected": exp, "rule_fired": fired, "files": files, "args": pre + args})
        res["fail"] = fail
        res["outcome"] = fail[0] if fail else f"{rule}:{exp}:{layer}"
        return res
    if c[0] == "X":
        _x, la, lb, df, cf = c
        # layer la: md013.line_length=20 and md001.enabled=false ; layer lb: md004.style=dash and md002.enabled=true
        files, args = {}, []
        for layer, tree in ((la, {"md013": {"line_length": 20}, "md001": {"enabled": False}}), (lb, {"md004": {"style": "dash"}, "md002": {"enabled": True}})):
            full = {"plugins": tree}
            if layer == "pyproject":
                files["pyproject.toml"] = _pyproject(full)
            elif layer == "default":
                files[DEFAULT_FLAVOURS[df]] = _dump(DEFAULT_FLAVOURS[df], full)
            elif layer == "config":
                files[CONFIG_FLAVOURS[cf]] = _dump(CONFIG_FLAVOURS[cf], full)
                args += ["--config", CONFIG_FLAVOURS[cf]]
            else:
                for rule, items in tree.items():
                    for k, v in items.items():
                        args += ["--set", _setarg(f"plugins.{rule}.{k}", v)]
        fail = None
        with app.Sandbox(files) as sb:
            r1, v13 = _info(sb, args, "md013")
            r2, v04 = _info(sb, args, "md004")
            r3 = app.run_main(args + ["plugins", "list"], sb)
            res["feeds"] += 3
            got = {"md013.line_length": v13.get("line_length"), "md004.style": v04.get("style"),
                   "md001.enabled": _current_enabled(r3.out, "md001"), "md002.enabled": _current_enabled(r3.out, "md002")}
        want = {"md013.line_length": "20", "md004.style": '"dash"', "md001.enabled": False, "md002.enabled": True}
        bad = sorted(k for k in want if got[k] != want[k])
        if bad:
            fail = (f"cross:{la}+{lb}:lost-" + "+".join(bad), {"files": files, "args": args, "effective": got, "expected": want})
        res["states"] = [("X", la, lb)]
        res["nontrivial"] = True
        res["fail"] = fail
        res["outcome"] = fail[0] if fail else f"X:{la}+{lb}"
        return res
    if c[0] == "B":
        _b, rule, item, layer, strict, kind = c
        valid, bad = ITEM_SAMPLES[(rule, item)]
        value = {"valid": valid, "range": bad, "type": _wrong_type(valid)}[kind]
        default_shown = _defaults(rule).get(item)
        files, args = build({layer: value}, rule, item, extra_mode="default" if strict == "mode" else None)
        pre = ["--strict-config"] if strict == "flag" else []
        res["states"] = [(rule, item, kind, strict)]
        res["nontrivial"] = kind != "valid"
        with app.Sandbox(files) as sb:
            r, vals = _info(sb, pre + args, rule)
            res["feeds"] += 1
        fail = None
        detail = {"files": files, "args": pre + args, "rc": r.rc, "shown": vals.get(item), "stderr": r.err[-200:]}
        if kind == "valid":
            if r.rc != 0 or vals.get(item) != _show(value):
                fail = (f"item:valid-value-not-effective:{layer}", detail)
        elif strict == "off":
            if r.rc != 0:
                fail = (f"item:{kind}-value-stops-lenient-run:{layer}", detail)
            elif vals.get(item) != default_shown:
                fail = (f"item:{kind}-value-not-replaced-by-default:{layer}", detail)
        else:
            if r.rc != 1 or not r.err.strip():
                fail = (f"item:{kind}-value-accepted-in-strict-mode:{strict}:{layer}", detail)
        res["fail"] = fail
        res["outcome"] = fail[0] if fail else f"B:{kind}:{strict}"
        return res
    _p, rule, item, lo, hi = c
    valid, _bad = ITEM_SAMPLES[(rule, item)]
    # two different valid values: the documented default (lower layer) and the sample (higher layer)
    dshown = _defaults(rule).get(item)
    try:
        dval = json.loads(dshown) if dshown not in ("True", "False") else dshown == "True"
    except Exception:  # noqa: BLE001
        dval = None
    if dval is None or dval == valid:
        res["outcome"] = "P:skipped"
        return res
    files, args = build({lo: valid, hi: dval}, rule, item)
    files2, args2 = build({lo: dval, hi: valid}, rule, item)
    fail = None
    for fs, ar, want in ((files, args, dval), (files2, args2, valid)):
        with app.Sandbox(fs) as sb:
            r, vals = _info(sb, ar, rule)
            res["feeds"] += 1
        if r.rc != 0 or vals.get(item) != _show(want):
            fail = (f"item:{hi}-does-not-override-{lo}", {"files": fs, "args": ar, "shown": vals.get(item), "expected": _show(want), "rc": r.rc})
            break
    res["states"] = [(rule, item, lo, hi)]
    res["nontrivial"] = True
    res["fail"] = fail
    res["outcome"] = fail[0] if fail else f"P:{hi}>{lo}"
    return res


def classify(key, sig, detail):
    return sig, f"configuration precedence/validation differs from the documented model: {sig}"


def run(tier, return_info=False):
    rc, info = sweep.run_doc_check(sys.modules[__name__], tier)
    return info if return_info else rc


def replay(path):
    return sweep.replay_doc(sys.modules[__name__], path)
