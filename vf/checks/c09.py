"""C09 - fix converges: one run reaches a fixed point with nothing fixable left (DESIGN 3, C09)."""
import itertools
import re
import sys

from .. import app, common, configs, parser, spaces, sweep

PROP = "C09"
CHUNK = 254 * 4
RULE = (
    "documents x {default set, each fix-capable default rule alone, each pair of them}; a single rule is run on a "
    "document when it fires there under the default set (firing is a per-rule property: C12) and on every one-line "
    "document regardless; a pair is run when both fire, and on one-line documents when at least one fires; "
    "pruned combinations are counted, not run; non-trivial = a chain in which the first fix changed the file"
)
STATES_MEANING = (
    "distinct file contents reached along fix chains d -> fix(d) -> fix(fix(d)); transitions = fix/scan executions of the real application"
)
ASSUMPTIONS = [
    "pruning of (document, rule set) combinations in which no rule of the set fires rests on 'no fix-capable failure => fix is the identity', "
    "which is itself checked for the default set on every document and for every single rule and pair on all one-line documents",
]


def fixable():
    t = app.rule_table()
    return sorted(r for r, v in t.items() if v["fix"] and v["enabled_default"])


def _configs():
    fx = fixable()
    return ["default"] + [f"only:{r}" for r in fx] + [f"only2:{a}+{b}" for a, b in itertools.combinations(fx, 2)]


def space(tier):
    cfgs = _configs()
    if tier == "thorough":
        docs = [spaces.block_space("rule", 3), spaces.block_space("core", 3), spaces.block_space("wide", 2), spaces.mix_space(tier), spaces.levels_space(tier)]
    else:
        docs = [spaces.block_space("rule", 2), spaces.block_space("core", 2), spaces.block_space("wide", 1), spaces.mix_space(tier), spaces.levels_space(tier)] + spaces.levels_deep_spaces()
    return spaces.UnionSpace(f"fix-{tier}", [spaces.ConfigDocSpace(d, cfgs) for d in docs])


_fire_cache = {}


def firing(text):
    """fix-capable rules that fire on the document under the default set (None: scan failed)"""
    if text not in _fire_cache:
        if len(_fire_cache) > 64:
            _fire_cache.clear()
        with app.Sandbox({"t.md": text}) as sb:
            r = app.run_main(["scan", "t.md"], sb)
        if r.rc not in (0, 1) or r.err.strip():
            _fire_cache[text] = None
        else:
            fails, _ = app.parse_failures(r.out)
            fx = set(fixable())
            _fire_cache[text] = {f["rule"].lower() for f in fails} & fx
    return _fire_cache[text]


def chain(cfg, text):
    """Returns (fail|None, info) for one fix chain."""
    args = configs.config_args(cfg)
    fxset = set(fixable()) & set(configs.enabled_rules(cfg))
    with app.Sandbox({"t.md": text}) as sb:
        r1 = app.run_main(args + ["fix", "t.md"], sb)
        if r1.rc == "timeout":
            return ("fix-hang", "fix did not finish within the CPU guard"), {}
        d1 = sb.read("t.md").decode("utf-8", "replace")
        if r1.err.strip() or r1.rc not in (0, 3):
            m = re.search(r"(Bad\w+Error|Unexpected Error\(\w+\))", r1.err)
            pl = re.search(r"Plugin id '(\w+)'", r1.err)
            sig = "fix-error:" + (m.group(1) if m else f"rc={r1.rc}") + (":" + pl.group(1).upper() if pl else "")
            return (sig, r1.err.strip()[:400]), {"d1": d1}
        r2 = app.run_main(args + ["fix", "t.md"], sb)
        d2 = sb.read("t.md").decode("utf-8", "replace")
        info = {"d1": d1, "d2": d2, "changed": d1 != text}
        if r2.err.strip() or r2.rc not in (0, 3):
            return ("second-fix-error", r2.err.strip()[:300]), info
        if d2 != d1 or r2.rc != 0:
            # which fix-capable rules did the first run leave behind? (signature class)
            with app.Sandbox({"t.md": d1}) as sb1:
                r3 = app.run_main(args + ["scan", "t.md"], sb1)
            fails, _ = app.parse_failures(r3.out)
            left = sorted({f["rule"].lower() for f in fails} & fxset)
            return ("not-idempotent:" + ("+".join(left) or "nothing-reported"), {"after_first_fix": d1, "after_second_fix": d2, "second_rc": r2.rc, "fixable_still_reported_after_first_fix": left}), info
        r3 = app.run_main(args + ["scan", "t.md"], sb)
        fails, _ = app.parse_failures(r3.out)
        left = sorted({f["rule"].lower() for f in fails} & fxset)
        if r3.err.strip():
            return ("scan-after-fix-error", r3.err.strip()[:300]), info
        if left:
            return ("fixable-left:" + "+".join(left), {"after_fix": d1, "still_reported": [f"{f['line']}:{f['col']} {f['rule']}" for f in fails if f["rule"].lower() in left]}), info
        return None, info


def evaluate(payload):
    cfg, text = payload
    res = {"fail": None, "feeds": 0}
    one_line = "\n" not in text
    nlines = text.count("\n") + 1
    if (cfg != "default" and nlines >= 4) or (cfg.startswith("only2:") and nlines >= 3):
        # deep documents are explored under the default rule set only, pairs of rules on documents of
        # up to two lines, single rules on documents of up to four lines
        res["outcome"] = "pruned"
        res["count"] = {"pruned_deep_document_default_set_only": 1}
        return res
    rules = configs.enabled_rules(cfg) if cfg != "default" else None
    S = firing(text)
    if S is None:
        res["outcome"] = "scan-failed-or-unparseable"
        return res
    if rules is not None:
        n_fire = len(S & set(rules))
        run_it = (n_fire == len(rules)) or (one_line and (len(rules) == 1 or n_fire >= 1))
        if not run_it:
            res["outcome"] = "pruned"
            res["count"] = {"pruned_no_rule_of_the_set_fires_or_only_one_of_a_pair": 1}
            return res
    fail, info = chain(cfg, text)
    res["feeds"] = 3
    res["count"] = {"chains_run": 1}
    res["states"] = [common.sha(x)[:16] for x in (text, info.get("d1", text), info.get("d2", text))]
    res["nontrivial"] = bool(info.get("changed"))
    # inference check: nothing fixable fires => fix must be the identity
    if fail is None and rules is None:
        S = firing(text)
        if S is not None and not S and info.get("changed"):
            fail = ("changed-without-fixable-failure", {"after_fix": info["d1"]})
    if fail is None and rules is not None and not (firing(text) & set(rules)) and info.get("changed"):
        fail = ("changed-without-fixable-failure", {"after_fix": info["d1"]})
    res["fail"] = fail
    res["outcome"] = fail[0] if fail else ("fixed" if info.get("changed") else "unchanged")
    return res


def classify(key, sig, detail):
    if sig.startswith("fixable-left"):
        return sig, f"after one fix run a fix-capable rule still reports ({sig.split(':', 1)[1]}): the fix did not finish the job"
    if sig.startswith("not-idempotent"):
        return sig, f"a second fix run changes the file again or reports it fixed again (fix-capable rules still reporting after the first run: {sig.split(':', 1)[1]})"
    if sig.startswith("fix-error"):
        return sig, f"fix aborts with an application error ({sig.split(':', 1)[1]}), leaving fixable failures in place"
    return sig, f"fix chain violates the contract: {sig}"


def run(tier, return_info=False):
    rc, info = sweep.run_doc_check(sys.modules[__name__], tier)
    return info if return_info else rc


def replay(path):
    return sweep.replay_doc(sys.modules[__name__], path)
