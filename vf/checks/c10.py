"""C10 - fix reporting is truthful and scan is read-only (DESIGN 3, C10)."""
import itertools
import json
import sys

from .. import app, common, configs, parser, pool, spaces, sweep
from .c09 import fixable

PROP = "C10"
CHUNK = 300
RULE = (
    "single files: every document of the rule/block spaces x both return-code schemes, scan then fix; "
    "multi-file: every ordered selection of 1..3 files from a pool of 10 documents x both schemes x {fix, scan, scan-stdin, scan -l, API fix}; "
    "non-trivial = a fix run that changed at least one file"
)
STATES_MEANING = (
    "distinct (bytes changed, 'Fixed:' printed, exit code) observations; transitions = application executions (scan, fix, stdin, list)"
)

SCHEMES = ["default", "minimal"]
FIXED_CODE = {"default": 3, "minimal": 0}


def space(tier):
    if tier == "thorough":
        docs = [spaces.block_space("rule", 3), spaces.block_space("core", 3), spaces.block_space("wide", 2), spaces.mix_space(tier)]
    else:
        docs = [spaces.block_space("rule", 2), spaces.block_space("core", 3), spaces.block_space("wide", 2), spaces.mix_space(tier)]
    return spaces.UnionSpace(f"fixreport-{tier}", [spaces.ConfigDocSpace(d, SCHEMES) for d in docs])


def evaluate(payload):
    scheme, text = payload
    res = {"fail": None, "feeds": 0}
    st, _v, _w = parser.parse(text)
    if st != "ok":
        res["outcome"] = "parse-failed"
        return res
    pre = ["--return-code-scheme", scheme]
    with app.Sandbox({"t.md": text}) as sb:
        before = sb.snapshot()
        r0 = app.run_main(pre + ["scan", "t.md"], sb)
        res["feeds"] += 1
        after_scan = sb.snapshot()
        if after_scan != before:
            res["fail"] = ("scan-modified-files", {"before": before, "after": after_scan})
            res["outcome"] = "scan-modified-files"
            return res
        if r0.rc == "timeout" or r0.err.strip():
            res["outcome"] = "scan-error"
            return res
        fails, _ = app.parse_failures(r0.out)
        S = {f["rule"].lower() for f in fails} & set(fixable())
        r1 = app.run_main(pre + ["fix", "t.md"], sb)
        res["feeds"] += 1
        after = sb.read("t.md")
        changed = after != text.encode("utf-8")
        announced = "Fixed: t.md" in r1.out.splitlines()
        leftovers = sb.tmp_entries()
        extra_files = sorted(set(sb.snapshot()) - set(before))
        res["states"] = [(changed, announced, r1.rc)]
        res["nontrivial"] = changed
        if r1.rc == "timeout" or r1.err.strip():
            # an application error during fix: C15 / C09 judge it; here only "never announce, never leave temp files"
            if announced or r1.rc == FIXED_CODE["default"]:
                res["fail"] = ("fixed-announced-with-error", {"out": r1.out, "err": r1.err[:300], "rc": r1.rc})
            res["outcome"] = "fix-error"
            return res
        fail = None
        if changed != announced:
            fail = ("bytes-changed-vs-announced", {"changed": changed, "announced": announced, "after": after.decode("utf-8", "replace")})
        elif changed and r1.rc != FIXED_CODE[scheme]:
            fail = ("changed-but-exit-code", {"rc": r1.rc, "scheme": scheme})
        elif not changed and scheme == "default" and r1.rc == 3:
            fail = ("exit-fixed-but-unchanged", {"rc": r1.rc})
        elif not S and changed:
            fail = ("changed-without-fixable-failure", {"after": after.decode("utf-8", "replace")})
        elif leftovers or extra_files:
            fail = ("files-left-behind", {"tmp": leftovers, "cwd": extra_files})
        res["fail"] = fail
        res["outcome"] = fail[0] if fail else f"changed={changed},rc={r1.rc}"
        return res


# ------------------------------------------------------------------ multi-file runs

POOL = [
    ("clean", "# a\n"),
    ("linefix", "# a  \n"),
    ("tokenfix", "# a\n\n* b\n+ c\n"),
    ("both", "#  a  \n\n* b\n+ c\n"),
    ("unfixable", "# a\n# b\n"),
    ("empty", ""),
    ("nofinalnl", "# a"),
    ("tabs", "# a\n\n\tb\n"),
    ("clean2", "# c\n\ntext\n"),
    ("multilevel", "# a\n\n### b\n\n-  x\n"),
]
MODES = ["fix", "scan", "scan-l", "scan-stdin", "api-fix"]


def _multi(task):
    sel, scheme, mode = task
    files = {f"f{i}_{POOL[j][0]}.md": POOL[j][1] for i, j in enumerate(sel)}
    pre = ["--return-code-scheme", scheme]
    out = {"task": task, "fail": None}
    with app.Sandbox(files) as sb:
        before = sb.snapshot()
        names = sorted(files)
        if mode == "fix":
            r = app.run_main(pre + ["fix"] + names, sb)
            if r.err.strip():
                out["fail"] = ("multi-fix-error", r.err[:300])
                return out
            announced = {l[len("Fixed: "):] for l in r.out.splitlines() if l.startswith("Fixed: ")}
            changed = {n for n in names if sb.read(n) != files[n].encode()}
            if announced != changed:
                out["fail"] = ("multi:announced-vs-changed", {"announced": sorted(announced), "changed": sorted(changed)})
            elif bool(changed) != (r.rc == FIXED_CODE[scheme]) and scheme == "default":
                out["fail"] = ("multi:exit-code", {"rc": r.rc, "changed": sorted(changed)})
            elif scheme == "minimal" and r.rc != 0:
                out["fail"] = ("multi:exit-code", {"rc": r.rc})
            elif sb.tmp_entries():
                out["fail"] = ("multi:temp-left", sb.tmp_entries())
            out["changed"] = len(changed)
        elif mode == "api-fix":
            from pymarkdown.api import PyMarkdownApi

            import os
            import tempfile

            old = os.getcwd()
            oldt = tempfile.tempdir
            os.chdir(sb.cwd)
            tempfile.tempdir = sb.tmp
            try:
                fixed = []
                for n in names:
                    res = PyMarkdownApi().fix_path(n)
                    fixed += [os.path.basename(x) for x in res.files_fixed]
            finally:
                os.chdir(old)
                tempfile.tempdir = oldt
            changed = {n for n in names if sb.read(n) != files[n].encode()}
            if set(fixed) != changed:
                out["fail"] = ("multi:api-files_fixed-vs-changed", {"files_fixed": sorted(fixed), "changed": sorted(changed)})
            elif sb.tmp_entries():
                out["fail"] = ("multi:temp-left", sb.tmp_entries())
            out["changed"] = len(changed)
        else:
            if mode == "scan":
                r = app.run_main(pre + ["scan"] + names, sb)
            elif mode == "scan-l":
                r = app.run_main(pre + ["scan", "-l"] + names, sb)
            else:
                r = app.run_main(pre + ["scan-stdin"], sb, stdin_text=files[names[0]])
            after = sb.snapshot()
            if after != before:
                out["fail"] = (f"multi:{mode}-modified-files", {"new_or_changed": sorted(k for k in after if after[k] != before.get(k))})
    return out


def _stdin_edge(kind):
    """scan-stdin / scan_string on input that cannot be decoded or encoded: nothing may be left behind"""
    out = {"task": ((kind,), "default", "scan-stdin-edge"), "fail": None}
    with app.Sandbox({"keep.md": "# a\n"}) as sb:
        before = sb.snapshot()
        if kind == "undecodable-stdin":
            app.run_main(["scan-stdin"], sb, stdin_text=b"# T\n\xff\xfe\n")
        elif kind == "empty-stdin":
            app.run_main(["scan-stdin"], sb, stdin_text=b"")
        else:
            from pymarkdown.api import PyMarkdownApi, PyMarkdownApiException

            with app.in_sandbox(sb):
                try:
                    PyMarkdownApi().scan_string("# a \ud800\n")
                except PyMarkdownApiException:
                    pass
                except Exception as e:  # noqa: BLE001
                    out["note"] = type(e).__name__
        after = sb.snapshot()
        if after != before:
            out["fail"] = ("multi:scan-stdin-left-files-behind", {"kind": kind, "new_or_changed": sorted(k for k in after if after[k] != before.get(k))})
    return out


def extra_cases(tier):
    tasks = []
    maxn = 3
    for n in range(1, maxn + 1):
        for sel in itertools.permutations(range(len(POOL)), n):
            if tier == "quick" and n == 3 and not (sel[0] < sel[1] < sel[2]):
                continue  # quick: triples as sets (file names are sorted by the application anyway)
            for scheme in SCHEMES:
                for mode in MODES:
                    if mode in ("scan-stdin",) and n > 1:
                        continue
                    if mode == "api-fix" and scheme == "minimal":
                        continue
                    tasks.append((sel, scheme, mode))
    results = pool.pmap(_multi, tasks)
    results += [_stdin_edge(k) for k in ("undecodable-stdin", "api-lone-surrogate", "empty-stdin")]
    cases = []
    nontriv = 0
    for r in results:
        if r.get("changed"):
            nontriv += 1
        if r["fail"] is not None:
            cases.append((json.dumps(["multi", list(r["task"][0]), r["task"][1], r["task"][2]]), r["fail"][0], r["fail"][1]))
    return cases, {"multi_file_runs": len(tasks), "multi_file_runs_with_a_changed_file": nontriv, "multi_file_pool": [p[0] for p in POOL]}


def evaluate_key(key):
    k = json.loads(key)
    if k[0] == "multi" and k[3] == "scan-stdin-edge":
        return _stdin_edge(k[1][0])["fail"]
    if k[0] == "multi":
        return _multi((tuple(k[1]), k[2], k[3]))["fail"]
    return evaluate((k[0], k[1])).get("fail")


def classify(key, sig, detail):
    table = {
        "bytes-changed-vs-announced": "'Fixed:' is announced (and the fixed exit code returned) although the file's bytes did not change, or the reverse",
        "exit-fixed-but-unchanged": "exit code says 'fixed at least one file' although no byte changed",
        "changed-without-fixable-failure": "fix changes a file on which scan reports no failure from any fix-capable rule",
    }
    return sig, table.get(sig, f"fix/scan reporting contract broken: {sig}")


def run(tier, return_info=False):
    rc, info = sweep.run_doc_check(sys.modules[__name__], tier)
    return info if return_info else rc


def replay(path):
    mod = sys.modules[__name__]
    with open(path) as f:
        rp = json.load(f)
    k = json.loads(rp["case"]["key"])
    if k[0] == "multi" and k[3] == "scan-stdin-edge":
        r = _stdin_edge(k[1][0])
        print("replay", k, "->", r["fail"])
        return 1 if r["fail"] else 0
    if k[0] == "multi":
        r = _multi((tuple(k[1]), k[2], k[3]))
        print("replay", k, "->", r["fail"])
        return 1 if r["fail"] else 0
    return sweep.replay_doc(mod, path)
