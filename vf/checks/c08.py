"""C08 - fix mode preserves meaning: only style changes (DESIGN 3, C08)."""
import json
import sys

from .. import app, common, configs, parser, spaces, sweep
from ..oracles import fingerprint as fpr
from .c09 import firing, fixable

PROP = "C08"
CHUNK = 23 * 30
RULE = (
    "documents of the rule/block spaces x {default rule set, each fix-capable default rule alone (run where that rule fires)}; the content fingerprint "
    "(computed from the independent parser's token tree, with everything the fixing rules are documented to normalise erased) must be equal before and after fix; "
    "non-trivial = document that fix changed"
)
STATES_MEANING = "distinct content fingerprints observed; transitions = fix executions of the real application"
ASSUMPTIONS = [
    "markdown-it-py decides what a document 'renders to' before and after the fix (the property asks for an independent renderer)",
    "rule-conditioned relaxations (MD037 emphasis spacing, MD038 code-span padding, MD039 link-text padding, MD044 letter case) apply only when that rule is enabled and fired",
]


def _configs():
    return ["default"] + [f"only:{r}" for r in fixable()]


def space(tier):
    cfgs = _configs()
    if tier == "thorough":
        docs = [spaces.block_space("rule", 3), spaces.block_space("core", 4), spaces.block_space("wide", 2), spaces.mix_space(tier), spaces.levels_space(tier)]
    else:
        docs = [spaces.block_space("rule", 2), spaces.block_space("core", 3), spaces.block_space("wide", 1), spaces.mix_space(tier), spaces.levels_space(tier)]
    return spaces.UnionSpace(f"meaning-{tier}", [spaces.ConfigDocSpace(d, cfgs) for d in docs])


def evaluate(payload):
    cfg, text = payload
    res = {"fail": None, "feeds": 0}
    st, _v, _w = parser.parse(text)
    if st != "ok":
        res["outcome"] = "parse-failed"
        return res
    S = firing(text)
    if S is None:
        res["outcome"] = "scan-failed"
        return res
    rules = set(configs.enabled_rules(cfg))
    if cfg != "default" and not (S & rules):
        res["outcome"] = "pruned"
        res["count"] = {"pruned_rule_does_not_fire": 1}
        return res
    with app.Sandbox({"t.md": text}) as sb:
        r = app.run_main(configs.config_args(cfg) + ["fix", "t.md"], sb)
        after = sb.read("t.md").decode("utf-8", "replace")
    res["feeds"] = 1
    if r.rc in ("timeout", "exception") or r.err.strip():
        res["outcome"] = "fix-error"
        res["count"] = {"skipped_fix_error": 1}
        return res
    res["nontrivial"] = after != text
    if after == text:
        res["outcome"] = "unchanged"
        return res
    relax = {x for x in ("md037", "md038", "md039", "md044") if x in rules and x in S}
    a = fpr.fingerprint(text, relax)
    b = fpr.fingerprint(after, relax)
    res["states"] = [common.sha(repr(a))[:12], common.sha(repr(b))[:12]]
    if a != b:
        ca, cb = fpr.text_characters(text), fpr.text_characters(after)
        if ca != cb and not relax:
            kind = "text-lost-or-invented"
        else:
            kind = "structure-changed"
        # where: first differing top-level block kind
        ka = [n[0] if not isinstance(n, list) else n[0] for n in a]
        kb = [n[0] if not isinstance(n, list) else n[0] for n in b]
        i = 0
        while i < min(len(ka), len(kb)) and ka[i] == kb[i]:
            i += 1
        x = ka[i] if i < len(ka) else "same-blocks"
        y = kb[i] if i < len(kb) else "same-blocks"
        res["fail"] = (f"{kind}:{x}-becomes-{y}", {"configuration": cfg, "after_fix": after, "blocks_before": ka, "blocks_after": kb, "before": repr(a)[:400], "after": repr(b)[:400]})
        res["outcome"] = res["fail"][0]
    else:
        res["outcome"] = "style-only"
    return res


def classify(key, sig, detail):
    cfg = json.loads(key)[0]
    who = "default set" if cfg == "default" else cfg.split(":")[1].upper()
    ka, kb = detail["blocks_before"], detail["blocks_after"]
    i = 0
    while i < min(len(ka), len(kb)) and ka[i] == kb[i]:
        i += 1
    x = ka[i] if i < len(ka) else "end"
    y = kb[i] if i < len(kb) else "end"
    base = sig.split(":")[0]
    if x == y:
        return f"{base}-{who}-inside-{x}", f"fix ({who}) changes content inside a {x} block ({base})"
    return f"{base}-{who}-{x}-becomes-{y}", f"fix ({who}) changes the document's meaning: a {x} block becomes {y} ({base})"


def run(tier, return_info=False):
    rc, info = sweep.run_doc_check(sys.modules[__name__], tier)
    return info if return_info else rc


def replay(path):
    return sweep.replay_doc(sys.modules[__name__], path)
