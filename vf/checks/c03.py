"""C03 - CommonMark conformance against an independent implementation (DESIGN 3, C03)."""
import sys

from .. import parser, spaces, sweep
from ..oracles import cmark
from .c01 import CONTAINERS, LEAVES

PROP = "C03"
EXT = ()  # all extensions off
RULE = (
    "C01's spaces restricted to CommonMark input (no non-ASCII / in-band characters, no pragma line), all extensions off; "
    "HTML of pymarkdown's token stream vs markdown-it-py (commonmark preset) after removing whitespace adjacent to block tags; "
    "non-trivial = at least one container and one leaf block other than a paragraph"
)
ASSUMPTIONS = [
    "markdown-it-py 4.0.0 (CommonMark 0.31) is the reference; alphabets hold only constructs on which 0.29 and 0.31 agree",
]


def space(tier):
    return spaces.parser_space(tier, commonmark_only=True)


def frontier(tier):
    return (spaces.SIGMA_WIDE_CM, 8 if tier == "thorough" else 6)


def evaluate(text):
    from pymarkdown.transform_gfm.transform_to_gfm import TransformToGfm

    lines = text.split("\n")
    st, v, w, states = parser.parse_with_states(lines, EXT)
    res = {"states": [s for s in states if s is not None], "feeds": len(lines), "fail": None}
    if st != "ok":
        res["outcome"] = "parse-failed"
        res["count"] = {"skipped_parse_failed": 1}
        return res
    names = {t.token_name for t in v}
    res["nontrivial"] = bool(names & CONTAINERS) and bool(names & LEAVES)
    st2, html, _ = parser.run_guarded(lambda: TransformToGfm().transform(v))
    if st2 != "ok":
        sig = "html-exc:" + (parser.exc_signature(html) if st2 == "exc" else st2)
        res["fail"] = (sig, sig)
        res["outcome"] = sig
        return res
    ref = cmark.render(text)
    a, b = cmark.norm(html), cmark.norm(ref)
    if a == b:
        res["outcome"] = "agree:" + ",".join(sorted(names))
    elif cmark.excluded_construct(text):
        res["outcome"] = "excluded:" + cmark.excluded_construct(text)
        res["count"] = {"excluded_construct": 1}
    elif cmark.lazy_interrupt_ambiguity(text):
        res["outcome"] = "excluded:lazy-interrupt-ambiguity"
        res["count"] = {"excluded_spec_vs_reference_ambiguity": 1}
    else:
        detail = {"pymarkdown": html, "reference": ref}
        sig = "html-differs:" + _class(detail)
        res["fail"] = (sig, detail)
        res["outcome"] = sig
    return res


def run(tier, return_info=False):
    rc, info = sweep.run_doc_check(sys.modules[__name__], tier)
    return info if return_info else rc


def replay(path):
    return sweep.replay_doc(sys.modules[__name__], path)


import re as _re

_TOK = _re.compile(r"<(/?)([a-zA-Z0-9]+)[^>]*>|[^<]+|<")


def _html_tokens(h):
    out = []
    for m in _TOK.finditer(h):
        if m.group(2):
            out.append("<" + m.group(1) + m.group(2).lower() + ">")
        else:
            out.append("text")
    return out


def _class(detail):
    a = _html_tokens(cmark.norm(detail["pymarkdown"]))
    b = _html_tokens(cmark.norm(detail["reference"]))
    i = 0
    while i < min(len(a), len(b)) and a[i] == b[i]:
        i += 1
    x = a[i] if i < len(a) else "end"
    y = b[i] if i < len(b) else "end"
    return "text" if x == y else f"{x}-vs-{y}"


def classify(key, sig, detail):
    if not sig.startswith("html-differs"):
        return sig, f"HTML generation fails on a document that parses ({sig})"
    a = _html_tokens(cmark.norm(detail["pymarkdown"]))
    b = _html_tokens(cmark.norm(detail["reference"]))
    i = 0
    while i < min(len(a), len(b)) and a[i] == b[i]:
        i += 1
    x = a[i] if i < len(a) else "end"
    y = b[i] if i < len(b) else "end"
    if x == y == "text":
        return "text-differs", "structure agrees with the CommonMark reference but a text/attribute run differs (escaping, whitespace or content moved)"
    return (
        f"{x}-vs-{y}",
        f"block/inline structure differs from the CommonMark reference: at the first difference pymarkdown has {x} where the reference has {y}",
    )
