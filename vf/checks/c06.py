"""C06 - rule verdicts equal the documented condition, no more and no less (DESIGN 3, C06)."""
import json
import sys

from .. import app, configs, parser, spaces, sweep
from ..oracles import cmark, rules_ref

PROP = "C06"
CHUNK = 120
RULE = (
    "documents of the rule/block spaces on which the CommonMark comparison (C03's oracle) passes x 24 rules x configuration grids of their documented items; "
    "reference predicates written from newdocs/src/plugins/rule_mdNNN.md and evaluated on the independent parser's tokens and the raw lines; "
    "compared object: the set of (line, rule) pairs; non-trivial = document on which at least one of the 24 rules is expected to report"
)
STATES_MEANING = "distinct (rule, verdict) sets observed; transitions = scan executions of the real application"
ASSUMPTIONS = [
    "the documented condition is what the rule's page states; where a page leaves a corner open the predicate abstains there (listed per predicate in vf/oracles/rules_ref.py)",
    "a report may sit on any line of the element it is about (heading text line or underline, any line of a list / code block / blank-line run)",
]
RULES = sorted(rules_ref.PREDICATES)


def space(tier):
    if tier == "thorough":
        parts = [spaces.block_space("rule", 3), spaces.block_space("core", 3), spaces.block_space("wide", 2), spaces.mix_space(tier), spaces.para_space(tier)]
    else:
        parts = [spaces.block_space("rule", 2), spaces.block_space("core", 3), spaces.block_space("wide", 1), spaces.mix_space(tier), spaces.para_space(tier)]
    return spaces.UnionSpace(f"rules-{tier}", parts)


def _set_args(rule, cfg):
    out = []
    for k, v in cfg.items():
        if isinstance(v, bool):
            out += ["--set", f"plugins.{rule}.{k}=$!{v}"]
        elif isinstance(v, int):
            out += ["--set", f"plugins.{rule}.{k}=$#{v}"]
        else:
            out += ["--set", f"plugins.{rule}.{k}={v}"]
    return out


_only24 = []


def _args_all():
    if not _only24:
        t = app.rule_table()
        off = sorted(r for r, v in t.items() if v["enabled_default"] and r not in RULES)
        _only24.extend(["-d", ",".join(off)])
    return list(_only24)


def _c03_passes(text):
    from pymarkdown.transform_gfm.transform_to_gfm import TransformToGfm

    st, v, _w = parser.parse(text, ())
    if st != "ok":
        return False
    st2, html, _ = parser.run_guarded(lambda: TransformToGfm().transform(v))
    if st2 != "ok":
        return False
    if cmark.excluded_construct(text) or cmark.lazy_interrupt_ambiguity(text):
        return False
    return cmark.norm(html) == cmark.norm(cmark.render(text))


def evaluate(text):
    res = {"fail": None, "feeds": 0}
    if not _c03_passes(text):
        res["outcome"] = "precondition-C03-fails"
        res["count"] = {"skipped_C03_precondition": 1}
        return res
    m = rules_ref.Model(text)
    fail = None
    verdicts = []
    with app.Sandbox({"t.md": text}) as sb:
        r = app.run_main(_args_all() + ["scan", "t.md"], sb)
        res["feeds"] += 1
        if r.rc in ("timeout", "exception") or r.err.strip():
            res["outcome"] = "scan-error"
            res["count"] = {"skipped_scan_error": 1}
            return res
        fails, _o = app.parse_failures(r.out)
        by = {}
        for f in fails:
            by.setdefault(f["rule"].lower(), []).append(f["line"])
        expected_any = False
        for rule in RULES:
            exp, ab = rules_ref.PREDICATES[rule](m, {})
            expected_any = expected_any or bool(exp)
            j = rules_ref.judge(rule, m, {}, by.get(rule, []))
            verdicts.append((rule, bool(by.get(rule))))
            if j is not None and fail is None:
                fail = (f"{rule}:{j[0]}:default", dict(j[1], rule=rule, configuration={}))
        if fail is None and len(text) <= 40:
            kinds = {b["kind"] for b in m.blocks}
            relevant = {
                "md003": "heading" in kinds,
                "md004": "bullet_list" in kinds,
                "md009": any(l.endswith(" ") for l in m.lines),
                "md010": "\t" in text,
                "md012": "\n\n\n" in "\n" + text,
                "md013": any(len(l) > 5 for l in m.lines),
                "md022": "heading" in kinds,
                "md024": "heading" in kinds,
                "md025": "heading" in kinds,
                "md026": "heading" in kinds,
                "md035": "hr" in kinds,
                "md041": True,
                "md046": bool(kinds & {"fence", "code_block"}),
                "md048": "fence" in kinds,
            }
            for rule, grid in rules_ref.GRIDS.items():
                if not relevant.get(rule, True):
                    res.setdefault("count", {})
                    res["count"]["grid_points_pruned_construct_absent"] = res["count"].get("grid_points_pruned_construct_absent", 0) + len(grid)
                    continue
                for cfg in grid:
                    rr = app.run_main(configs.config_args(f"only:{rule}") + _set_args(rule, cfg) + ["scan", "t.md"], sb)
                    res["feeds"] += 1
                    if rr.rc in ("timeout", "exception") or rr.err.strip():
                        continue
                    ff, _o = app.parse_failures(rr.out)
                    lines = [f["line"] for f in ff if f["rule"].lower() == rule]
                    j = rules_ref.judge(rule, m, cfg, lines)
                    if j is not None:
                        name = ",".join(f"{k}={v}" for k, v in cfg.items())
                        fail = (f"{rule}:{j[0]}:{name}", dict(j[1], rule=rule, configuration=cfg))
                        break
                if fail:
                    break
    res["nontrivial"] = expected_any
    res["states"] = [tuple(r for r, v in verdicts if v)]
    res["fail"] = fail
    res["outcome"] = fail[0] if fail else "agree:" + ",".join(r for r, v in verdicts if v)
    return res


def classify(key, sig, detail):
    rule, kind, cfg = sig.split(":", 2)
    what = "misses an occurrence of its documented condition" if kind == "missed" else "reports where its documented condition does not hold"
    return f"{rule}-{kind}-{cfg}", f"{rule.upper()} {what} (configuration: {cfg})"


def run(tier, return_info=False):
    rc, info = sweep.run_doc_check(sys.modules[__name__], tier)
    return info if return_info else rc


def replay(path):
    return sweep.replay_doc(sys.modules[__name__], path)
