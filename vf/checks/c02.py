"""C02 - lossless round trip: Markdown regenerated from tokens == source (DESIGN 3, C02)."""
import sys

from .. import parser, spaces, sweep

PROP = "C02"
RULE = (
    "same spaces as C01 (documents that fail to parse are C01's business: skipped and counted); "
    "non-trivial = at least one container token and one leaf block other than a paragraph"
)
ASSUMPTIONS = [
    "comparison is character for character, without the test-suite's tab leniency",
]
from .c01 import CONTAINERS, LEAVES  # noqa: E402


def space(tier):
    return spaces.parser_space(tier)


def frontier(tier):
    return (spaces.SIGMA_WIDE, 8 if tier == "thorough" else 6)


def _diff(a, b):
    i = 0
    while i < min(len(a), len(b)) and a[i] == b[i]:
        i += 1
    return f"first difference at offset {i}: source {a[i:i+12]!r} regenerated {b[i:i+12]!r}"


def evaluate(text):
    from pymarkdown.transform_markdown.transform_to_markdown import TransformToMarkdown

    lines = text.split("\n")
    st, v, w, states = parser.parse_with_states(lines)
    res = {"states": [s for s in states if s is not None], "feeds": len(lines), "fail": None}
    if st != "ok":
        res["outcome"] = "parse-failed"
        res["count"] = {"skipped_parse_failed": 1}
        return res
    names = {t.token_name for t in v}
    res["nontrivial"] = bool(names & CONTAINERS) and bool(names & LEAVES)
    st2, out, _ = parser.run_guarded(lambda: TransformToMarkdown().transform(v))
    if st2 == "ok":
        if out == text:
            res["outcome"] = "equal:" + ",".join(sorted(names))
        else:
            detail = {"regenerated": out, "diff": _diff(text, out)}
            sig = "mismatch:" + _diffclass(text, out)
            res["fail"] = (sig, detail)
            res["outcome"] = sig
    elif st2 == "exc":
        sig = "regen-exc:" + parser.exc_signature(out)
        res["fail"] = (sig, sig)
        res["outcome"] = sig
    else:
        res["fail"] = ("regen-" + st2, "regenerator exceeded the work budget")
        res["outcome"] = "regen-" + st2
    return res


def run(tier, return_info=False):
    rc, info = sweep.run_doc_check(sys.modules[__name__], tier)
    return info if return_info else rc


def replay(path):
    return sweep.replay_doc(sys.modules[__name__], path)


def _cat(chunk):
    cats = set()
    for ch in chunk:
        if ch == "\n":
            cats.add("newline")
        elif ch in " \t":
            cats.add("whitespace")
        elif ch == ">":
            cats.add("quote-marker")
        elif ch in "-+*" or ch.isdigit() or ch in ".)":
            cats.add("list-marker-char")
        elif ch == "\\":
            cats.add("backslash")
        elif ch.isalnum():
            cats.add("text")
        else:
            cats.add("other")
    return "+".join(sorted(cats)) or "nothing"


def _diffclass(src, out):
    """what kind of characters the first difference loses / invents / turns into what (signature class)"""
    import difflib

    sm = difflib.SequenceMatcher(None, src, out, autojunk=False)
    for tag, i1, i2, j1, j2 in sm.get_opcodes():
        if tag != "equal":
            a, b = _cat(src[i1:i2]), _cat(out[j1:j2])
            if tag == "delete":
                return f"loses-{a}"
            if tag == "insert":
                return f"invents-{b}"
            return f"turns-{a}-into-{b}"
    return "other"


def classify(key, sig, detail):
    if not sig.startswith("mismatch"):
        return sig, f"the Markdown regenerator raises ({sig[10:]}) on a document that parses"
    cls = sig.split(":", 1)[1]
    return cls, "regenerated Markdown differs from the source: " + cls.replace("-", " ")
