"""C13 - results for a file do not depend on which files were processed before it (DESIGN 3, C13)."""
import itertools
import json
import os
import sys

from .. import app, common, pool, reclog, spaces, sweep

PROP = "C13"
CHUNK = 40
RULE = (
    "histories = ordered pairs over a pool of documents that between them fire every rule and touch every piece of cross-line state, and ordered triples over a "
    "core of the pool, each as ONE invocation (scan and fix, front-matter extension on); also the same sequences through one PyMarkdownApi object; "
    "differential: per-file output and bytes = those of the file processed alone; explicit-state closure over rule-instance state dumps; "
    "non-trivial = history whose last file reports at least one failure or is changed by fix"
)
STATES_MEANING = "distinct process states (canonical dump of every rule instance as the next file sees it) reached by histories; transitions = files processed within multi-file invocations"
ASSUMPTIONS = [
    "state closure: equal dumps of all rule instances (as taken after their starting_new_file) are assumed to imply equal futures; parser statics are re-initialised per document by the code under test",
]

POOL = [
    ("h-incr", "# a\n\n### b\n"),
    ("h2first", "## a\n"),
    ("setext-atx", "# a\n\nb\n---\n"),
    ("ul-styles", "* a\n+ b\n- c\n"),
    ("ul-indent", "* a\n  * b\n * c\n"),
    ("ul-start", " * a\n"),
    ("trail", "a  \nb   \n"),
    ("tab", "a\tb\n"),
    ("revlink", "(a)[b]\n"),
    ("blanks", "a\n\n\nb\n"),
    ("long", "x" * 90 + "\n"),
    ("dollar", "```\n$ ls\n```\n"),
    ("atx-nospace", "#a\n"),
    ("atx-2space", "#  a\n"),
    ("atx-closed", "#a#\n\n# b  #\n"),
    ("h-noblank", "# a\nb\n"),
    ("h-indent", " # a\n"),
    ("h-dup", "# a\n\n# a\n"),
    ("h-punct", "# a.\n"),
    ("bq-space", ">  a\n"),
    ("bq-blank", "> a\n\n> b\n"),
    ("ol", "1. a\n3. b\n"),
    ("marker-space", "-  a\n"),
    ("fence-noblank", "a\n```\nb\n```\nc\n"),
    ("list-noblank", "a\n- b\nc\n"),
    ("html", "<b>x</b>\n"),
    ("bareurl", "http://a.b\n"),
    ("hr", "---\n\n***\n"),
    ("emph-heading", "**a**\n"),
    ("emph-space", "a ** b ** c\n"),
    ("code-space", "` a `\n"),
    ("link-space", "[ a ](u)\n"),
    ("emptylink", "[a]()\n\n![](u)\n"),
    ("codestyles", "    a\n\n```\nb\n```\n\n~~~\nc\n~~~\n"),
    ("nofinalnl", "a"),
    ("lrd-def", "[e]: #\n\n[l]: /u\n[l]: /v\n"),
    ("lrd-use", "[e]\n\n[l] [m]\n"),
    ("pragma-next", "<!-- pyml disable-next-line md019-->\n#  a\n"),
    ("pragma-num", "#  q\n<!-- pyml disable-num-lines 9 md019,md022-->\n"),
    ("after-pragma", "#  a\n#  b\n#  c\n"),
    ("open-bq", "> a"),
    ("open-list", "- a\n  - b"),
    ("open-list-bq", "- > a"),
    ("open-fence", "```\na"),
    ("open-icode", "    a"),
    ("open-html", "<div>\na"),
    ("open-setext", "a\n==="),
    ("frontmatter", "---\ntitle: x\n---\n\n## a\n"),
    ("parsercrash", "> > a\n- a"),
    ("empty", ""),
]
CORE = ["h-incr", "ul-styles", "blanks", "h-dup", "bq-space", "fence-noblank", "lrd-def", "lrd-use", "pragma-num", "after-pragma", "open-list-bq", "parsercrash"]
PRE = [
    "--set", "extensions.front-matter.enabled=$!True",
    # rules that do nothing unless configured are configured, so that their state is exercised too
    "--set", "plugins.md043.headings=# a,## b",
    "--set", "plugins.md044.names=Aaa",
    "--continue-on-error",
]
_IDX = {n: i for i, (n, _t) in enumerate(POOL)}
_TXT = dict(POOL)


class HistSpace(spaces.Space):
    SINGLE_DELETION = False

    def __init__(self, tier):
        self.name = f"histories-{tier}"
        names = [n for n, _t in POOL]
        cases = []
        for mode in ("scan", "fix"):
            for h in itertools.product(names, repeat=2):
                cases.append((mode, h))
            core = CORE if tier == "quick" else names[:24]
            for h in itertools.product(core, repeat=3):
                cases.append((mode, h))
        for h in itertools.product(CORE, repeat=2):
            cases.append(("api-scan", h))
            cases.append(("api-fix", h))
        for h in itertools.product(names, repeat=2):
            cases.append(("parse", h))
        self.cases = cases

    def __len__(self):
        return len(self.cases)

    def case(self, i):
        return (self.name, self.cases[i])

    def key(self, case):
        return json.dumps(case[1])

    def text(self, case):
        return self.key(case)

    def payload(self, case):
        return case[1]

    def payload_from_key(self, key):
        k = json.loads(key)
        return (k[0], tuple(k[1]))

    def subcases(self, case):
        mode, h = case[1]
        # shorter histories ending in the same file
        n = len(h)
        for r in range(n - 1, 0, -1):
            for idx in itertools.combinations(range(n - 1), r - 1):
                yield (self.name, (mode, tuple(h[i] for i in idx) + (h[-1],)))

    def describe(self):
        return {"name": self.name, "size": len(self.cases), "pool": len(POOL), "core": len(CORE)}


def space(tier):
    return HistSpace(tier)


_alone = {}


def _fname(pos, name):
    return f"{pos}_{name}.md"


def _run_files(mode, files, names):
    with app.Sandbox(files) as sb:
        r = app.run_main(PRE + [mode] + names, sb)
        by = {n: sb.read(n) for n in names}
    return r, by


def _per_file(r, name):
    out = [l for l in r.out.splitlines() if l.startswith(name + ":") or l == f"Fixed: {name}"]
    err = [l for l in r.err.splitlines() if name in l]
    return out, err


def _alone_obs(mode, pos, name):
    key = (mode, pos, name)
    if key not in _alone:
        fn = _fname(pos, name)
        r, by = _run_files(mode, {fn: _TXT[name]}, [fn])
        _alone[key] = (_per_file(r, fn), by[fn])
    return _alone[key]


def evaluate(payload):
    mode, hist = payload
    res = {"fail": None, "feeds": len(hist)}
    if mode.startswith("api"):
        return _api(mode, hist, res)
    if mode == "parse":
        return _parse_hist(hist, res)
    files = {_fname(i, n): _TXT[n] for i, n in enumerate(hist)}
    names = sorted(files)
    r, by = _run_files(mode, files, names)
    if r.rc in ("timeout", "exception"):
        res["fail"] = (f"{mode}:application-{r.rc}", r.err[-300:])
        res["outcome"] = res["fail"][0]
        return res
    fail = None
    for i, n in enumerate(hist):
        fn = _fname(i, n)
        got = (_per_file(r, fn), by[fn])
        want = _alone_obs(mode, i, n)
        if got != want:
            fail = (
                f"{mode}:file-result-depends-on-history:{n}",
                {"history": list(hist[:i]), "file": n, "in_history": {"out": got[0][0], "err": got[0][1], "bytes": got[1].decode("utf-8", "replace")},
                 "alone": {"out": want[0][0], "err": want[0][1], "bytes": want[1].decode("utf-8", "replace")}},
            )
            break
    last = _alone_obs(mode, len(hist) - 1, hist[-1])
    res["nontrivial"] = bool(last[0][0])
    res["fail"] = fail
    res["outcome"] = fail[0] if fail else f"{mode}:independent"
    return res


def _parse_hist(hist, res):
    """the documents of the history through ONE parser instance (as one invocation does): the token
    stream and HTML of the last one must equal those from a fresh instance"""
    from pymarkdown.transform_gfm.transform_to_gfm import TransformToGfm

    from .. import parser

    def ser(tm, text):
        st, v, _w = parser.run_guarded(lambda: tm.transform(text, do_add_end_of_stream_token=True))
        if st != "ok":
            return ("ERR", st)
        st2, html, _w = parser.run_guarded(lambda: TransformToGfm().transform(v))
        return ([str(t) for t in v], html if st2 == "ok" else st2)

    tm = parser.tokenizer(("front-matter", "linter-pragmas"))
    got = None
    for n in hist:
        got = ser(tm, _TXT[n])
    fresh = ser(parser.tokenizer(("front-matter", "linter-pragmas")), _TXT[hist[-1]])
    fail = None
    if got != fresh:
        fail = (f"parse:token-stream-depends-on-history:{hist[-1]}", {"history": list(hist[:-1]), "after_history": got, "fresh": fresh})
    res["nontrivial"] = True
    res["fail"] = fail
    res["outcome"] = fail[0] if fail else "parse:independent"
    return res


def _api(mode, hist, res):
    from pymarkdown.api import PyMarkdownApi, PyMarkdownApiException

    def one(api, text):
        try:
            if mode == "api-scan":
                rr = api.scan_string(text)
                return sorted((f.line_number, f.column_number, f.rule_id, f.rule_description, f.extra_error_information) for f in rr.scan_failures), [str(p) for p in rr.pragma_errors]
            rr = api.fix_string(text)
            return (rr.was_fixed, rr.fixed_file)
        except PyMarkdownApiException as e:
            return ("EXC", type(e).__name__, str(e)[:200])

    with app.Sandbox() as sb, app.in_sandbox(sb):
        api = PyMarkdownApi()
        seq = []
        for n in hist:
            t = _TXT[n]
            seq.append(one(api, t) if t.strip() else None)
        fresh = one(PyMarkdownApi(), _TXT[hist[-1]]) if _TXT[hist[-1]].strip() else None
        left = sb.tmp_entries()
    fail = None
    if seq[-1] != fresh:
        fail = (f"{mode}:reused-api-object-differs-from-fresh:{hist[-1]}", {"history": list(hist[:-1]), "reused": seq[-1], "fresh": fresh})
    elif left:
        fail = (f"{mode}:temp-files-left", left)
    res["nontrivial"] = bool(fresh)
    res["fail"] = fail
    res["outcome"] = fail[0] if fail else f"{mode}:independent"
    return res


# ------------------------------------------------------------------ explicit-state closure

ZSNAP = os.path.join(common.PLUGIN_DIR, "zsnap_plugin.py")


def _snap_task(hist):
    files = {_fname(i, n): _TXT[n] for i, n in enumerate(hist)}
    files[_fname(len(hist), "sentinel")] = "# s\n"
    names = sorted(files)
    reclog.reset()
    with app.Sandbox(files) as sb:
        app.run_main(PRE + ["--add-plugin", ZSNAP, "scan"] + names, sb)
    snaps = [e[1] for e in reclog.LOG if e[0] == "SNAP"]
    reclog.reset()
    return hist, snaps


def closure(tier):
    """breadth-first over histories with the rule-state dump as the state key"""
    names = [n for n, _t in POOL if n != "parsercrash"]
    depth_bound = 3 if tier == "thorough" else 2
    _h, snaps = _snap_task(())
    init = snaps[0] if snaps else {}
    rules = sorted(init)

    def key(s):
        return common.sha(json.dumps(s, sort_keys=True))[:16]

    seen = {key(init): ()}
    per_rule = {r: {init[r]} for r in rules}
    frontier = [()]
    transitions = 0
    per_depth = []
    for _d in range(1, depth_bound + 1):
        tasks = [h + (n,) for h in frontier for n in names]
        new = []
        for hist, snaps in pool.pmap(_snap_task, tasks):
            transitions += 1
            if len(snaps) < len(hist) + 1:
                continue
            s = snaps[len(hist)]  # state seen by the file after the history
            for r in rules:
                if r in s:
                    per_rule[r].add(s[r])
            k = key(s)
            if k not in seen:
                seen[k] = hist
                new.append(hist)
        per_depth.append(len(new))
        frontier = new
        if not new:
            break
    carrying = sorted(r for r in rules if len(per_rule[r]) > 1)
    return {
        "closure": {
            "depth_bound": depth_bound,
            "states": len(seen),
            "transitions": transitions,
            "new_states_per_depth": per_depth,
            "closed": bool(per_depth) and per_depth[-1] == 0,
            "rules_returning_to_their_initial_state_after_every_history": len(rules) - len(carrying),
            "rules_keeping_state_across_files": carrying,
            "distinct_states_per_carrying_rule": {r: len(per_rule[r]) for r in carrying},
        }
    }


def extra_cases(tier):
    cov = closure(tier)
    # the explored state graph of this check is the closure over rule-instance state dumps
    cov["states"] = max(1, cov["closure"]["states"])
    cov["transitions_in_state_closure"] = cov["closure"]["transitions"]
    return [], cov


def classify(key, sig, detail):
    parts = sig.split(":")
    return sig, f"{parts[0]}: the result for document '{parts[-1]}' differs when other files were processed before it in the same process"


def run(tier, return_info=False):
    rc, info = sweep.run_doc_check(sys.modules[__name__], tier)
    return info if return_info else rc


def replay(path):
    return sweep.replay_doc(sys.modules[__name__], path)
