"""C16 - all entry points agree: file scan, stdin scan and the Python API (DESIGN 3, C16)."""
import json
import sys

from .. import app, parser, pool, spaces, sweep

PROP = "C16"
CHUNK = 100
RULE = (
    "documents (rule space of two lines, plus CR-LF / lone CR / non-ASCII / no-final-newline documents) x rule selections expressible on the command line "
    "and through the API x entry points {file scan, scan-stdin, scan_string, scan_path, fix in place, fix_string, fix_path}; plus every log level x stack-trace x log-file "
    "on a document subset; non-trivial = document with at least one reported failure"
)
STATES_MEANING = "distinct failure-tuple sets observed; transitions = entry-point executions of the real application/API"

SPECIAL = [
    "# a\n\ncost: $5 and $ b  \n",
    "```\n$ ls\n```\n",
    "a %s {x} $\n",
    "a\x0cb\n",
    "# a\r\n\r\ntext  \r\n",
    "# a\r\n\r\n* b\r\n+ c\r\n",
    "# a\rb\r",
    "# é\n\nþ text 艨  \n",
    "#  a",
    "a\n\n\n\nb",
    "﻿# a\n",
    "# a\n\n```\ncode\n```\n\n1. a\n3. b\n",
    "\n",
    "# a\n\n<b>x</b> http://a.b\n",
]
SELECTIONS = [
    ("default", [], []),
    ("d1", ["-d", "md041"], [("disable", "md041")]),
    ("d2", ["-d", "md041,md047"], [("disable", "md041"), ("disable", "md047")]),
    ("e1", ["-e", "md002"], [("enable", "md002")]),
    ("int", ["--set", "plugins.md013.line_length=$#12"], [("int", "plugins.md013.line_length", 12)]),
    ("bool", ["--set", "plugins.md009.strict=$!True"], [("bool", "plugins.md009.strict", True)]),
    ("str", ["--set", "plugins.md004.style=dash"], [("str", "plugins.md004.style", "dash")]),
    # a value strict mode rejects, with and without the stack-trace diagnostic: every entry point must refuse
    ("strictbad", ["--strict-config", "--set", "plugins.md013.line_length=abc"], [("strict",), ("str", "plugins.md013.line_length", "abc")]),
    ("strictbad-st", ["--stack-trace", "--strict-config", "--set", "plugins.md013.line_length=abc"], [("stack",), ("strict",), ("str", "plugins.md013.line_length", "abc")]),
    ("strictok-st", ["--stack-trace", "--strict-config", "--set", "plugins.md013.line_length=$#12"], [("stack",), ("strict",), ("int", "plugins.md013.line_length", 12)]),
]


class DocSelSpace(spaces.ConfigDocSpace):
    pass


def space(tier):
    sel = [s[0] for s in SELECTIONS]
    parts = [spaces.ConfigDocSpace(spaces.block_space("rule", 2 if tier == "quick" else 3), sel if tier == "quick" else ["default", "d2", "int"])]
    parts.append(spaces.ConfigDocSpace(spaces.ListSpace("special", [tuple(s.split("\n")) for s in SPECIAL]), sel))
    if tier == "thorough":
        parts.append(spaces.ConfigDocSpace(spaces.block_space("core", 2), sel))
    return spaces.UnionSpace(f"entry-{tier}", parts)


def _api(actions):
    from pymarkdown.api import PyMarkdownApi

    a = PyMarkdownApi()
    for act in actions:
        if act[0] == "disable":
            a.disable_rule_by_identifier(act[1])
        elif act[0] == "enable":
            a.enable_rule_by_identifier(act[1])
        elif act[0] == "int":
            a.set_integer_property(act[1], act[2])
        elif act[0] == "bool":
            a.set_boolean_property(act[1], act[2])
        elif act[0] == "str":
            a.set_string_property(act[1], act[2])
        elif act[0] == "strict":
            a.enable_strict_configuration()
        elif act[0] == "stack":
            a.enable_stack_trace()
    return a


def _cli_tuples(out):
    fails, other = app.parse_failures(out)
    return sorted((f["line"], f["col"], f["rule"], f["names"], f["desc"]) for f in fails), other


def _api_tuples(result):
    return sorted(
        (f.line_number, f.column_number, f.rule_id, f.rule_name, f.rule_description + (f.extra_error_information or ""))
        for f in result.scan_failures
    )


def evaluate(payload):
    selname, text = payload
    _n, cli_args, api_actions = next(s for s in SELECTIONS if s[0] == selname)
    res = {"fail": None, "feeds": 0}
    if text.strip() == "":
        # the API documents that an empty string is rejected; whether a whitespace-only
        # string counts as empty is not specified, so such documents are not compared
        res["outcome"] = "empty-not-accepted-by-api"
        return res
    raw = text.encode("utf-8")
    obs = {}
    fixed = {}
    from pymarkdown.api import PyMarkdownApiException

    with app.Sandbox({"t.md": raw}) as sb:
        r = app.run_main(cli_args + ["scan", "t.md"], sb)
        if r.rc == "timeout" or (r.err.strip() and not selname.startswith("strict")):
            res["outcome"] = "scan-error"
            res["count"] = {"skipped_scan_error": 1}
            return res
        if selname.startswith("strict") and "Error" in r.err:
            # configuration refused on the command line: the API must refuse it as well
            refused = {}
            with app.in_sandbox(sb):
                for name, call in (("scan_string", lambda a: a.scan_string(text)), ("scan_path", lambda a: a.scan_path("t.md")), ("fix_string", lambda a: a.fix_string(text))):
                    try:
                        call(_api(api_actions))
                        refused[name] = False
                    except PyMarkdownApiException:
                        refused[name] = True
            r2 = app.run_main(cli_args + ["scan-stdin"], sb, stdin_text=raw)
            refused["stdin"] = "Error" in r2.err
            res["feeds"] += 4
            bad = sorted(k for k, v in refused.items() if not v)
            if bad:
                res["fail"] = ("config-error-not-raised-by:" + "+".join(bad), {"cli_stderr": r.err.strip()[-200:], "refused": refused})
            res["outcome"] = res["fail"][0] if res["fail"] else "all-entry-points-refuse"
            res["nontrivial"] = True
            return res
        obs["file"], other = _cli_tuples(r.out)
        r = app.run_main(cli_args + ["scan-stdin"], sb, stdin_text=raw)
        obs["stdin"] = _cli_tuples(r.out)[0] if not r.err.strip() else ("ERR", r.err.strip()[:200])
        with app.in_sandbox(sb):
            try:
                obs["scan_string"] = _api_tuples(_api(api_actions).scan_string(text))
            except PyMarkdownApiException as e:
                obs["scan_string"] = ("ERR", str(e)[:200])
            try:
                obs["scan_path"] = _api_tuples(_api(api_actions).scan_path("t.md"))
            except PyMarkdownApiException as e:
                obs["scan_path"] = ("ERR", str(e)[:200])
        res["feeds"] += 4
        # fixing
        r = app.run_main(cli_args + ["fix", "t.md"], sb)
        fix_err = r.err.strip()
        fixed["in_place"] = sb.read("t.md").decode("utf-8", "replace") if not fix_err else ("ERR", fix_err[:200])
        sb.write({"t.md": raw})
        with app.in_sandbox(sb):
            try:
                fixed["fix_string"] = _api(api_actions).fix_string(text).fixed_file
            except PyMarkdownApiException as e:
                fixed["fix_string"] = ("ERR", str(e)[:200])
            try:
                _api(api_actions).fix_path("t.md")
                fixed["fix_path"] = sb.read("t.md").decode("utf-8", "replace")
            except PyMarkdownApiException as e:
                fixed["fix_path"] = ("ERR", str(e)[:200])
        res["feeds"] += 3
        left = sb.tmp_entries()
    base = obs["file"]
    fail = None
    for k in ("stdin", "scan_string", "scan_path"):
        if obs[k] != base:
            fail = (f"scan:{k}-differs-from-file-scan", {"file_scan": base, k: obs[k]})
            break
    if fail is None:
        fbase = fixed["in_place"]
        for k in ("fix_string", "fix_path"):
            a, b = fixed[k], fbase
            if isinstance(a, tuple) or isinstance(b, tuple):
                same = isinstance(a, tuple) and isinstance(b, tuple)
            else:
                same = a == b
            if not same:
                fail = (f"fix:{k}-differs-from-fix-in-place", {"fix_in_place": fbase, k: fixed[k]})
                break
    if fail is None and left:
        fail = ("temp-files-left", left)
    res["fail"] = fail
    res["nontrivial"] = bool(base)
    res["states"] = [tuple(x[2] for x in base)]
    res["outcome"] = fail[0] if fail else "agree:" + ",".join(sorted({x[2] for x in base}))
    return res


# ------------------------------------------------------------------ diagnostics change nothing else

LEVELS = ["CRITICAL", "ERROR", "WARNING", "INFO", "DEBUG"]


def _diag(task):
    text, mode = task
    raw = text.encode("utf-8")
    ref = None
    n = 0
    for lvl in [None] + LEVELS:
        for st in (False, True):
            for lf in (False, True):
                pre = (["--log-level", lvl] if lvl else []) + (["--stack-trace"] if st else []) + (["--log-file", "log.txt"] if lf else [])
                with app.Sandbox({"t.md": raw}) as sb:
                    r = app.run_main(pre + [mode, "t.md"], sb)
                    n += 1
                    got = (r.rc, r.out, sb.read("t.md"))
                if ref is None:
                    ref = got
                elif got != ref:
                    return (text, mode, n, ("diagnostics-change-result", {"options": pre, "reference": [ref[0], ref[1]], "got": [got[0], got[1]]}))
    return (text, mode, n, None)


def _stdin_cli(task):
    text = task
    raw = text.encode("utf-8")
    with app.Sandbox({"t.md": raw}) as sb:
        a = app.run_cli(["scan", "t.md"], sb)
        b = app.run_cli(["scan-stdin"], sb, stdin_text=raw)
    ta, tb = _cli_tuples(a.out)[0], _cli_tuples(b.out)[0]
    if ta != tb or bool(a.err.strip()) != bool(b.err.strip()):
        return (text, ("real-cli:stdin-differs-from-file-scan", {"file": ta, "stdin": tb, "stderr": b.err[-200:]}))
    return (text, None)


def extra_cases(tier):
    docs = list(SPECIAL) + ["\n".join(spaces.block_space("rule", 1).case(i)[1]) for i in range(len(spaces.block_space("rule", 1)))]
    docs = [d for d in docs if d]
    tasks = [(d, m) for d in docs for m in ("scan", "fix")]
    cases = []
    runs = 0
    for text, mode, n, fail in pool.pmap(_diag, tasks):
        runs += n
        if fail:
            cases.append((json.dumps(["diag", mode, text]), fail[0], fail[1]))
    sub = 0
    for text, fail in pool.pmap(_stdin_cli, SPECIAL + ["# a\n", "a  \n\n\n* b", "#a"]):
        sub += 2
        if fail:
            cases.append((json.dumps(["realcli", text]), fail[0], fail[1]))
    return cases, {"diagnostic_option_runs": runs, "real_cli_subprocess_runs": sub}


def evaluate_key(key):
    k = json.loads(key)
    if k[0] == "diag":
        return _diag((k[2], k[1]))[3]
    if k[0] == "realcli":
        return _stdin_cli(k[1])[1]
    return evaluate((k[0], k[1])).get("fail")


def classify(key, sig, detail):
    return sig, f"entry points disagree: {sig}"


def run(tier, return_info=False):
    rc, info = sweep.run_doc_check(sys.modules[__name__], tier)
    return info if return_info else rc


def replay(path):
    with open(path) as f:
        rp = json.load(f)
    fail = evaluate_key(rp["case"]["key"])
    print("replay", rp["case"]["key"], "->", fail)
    return 1 if fail else 0
