"""C07 - scan never fails internally; reports in range, unique, ordered, repeatable (DESIGN 3, C07)."""
import re
import sys

from .. import app, common, configs, parser, spaces, sweep
from .c05 import expand

PROP = "C07"
CHUNK = 400
RULE = (
    "documents of the rule-oriented and block spaces x configurations {default set, all registered rules enabled, each rule alone}; "
    "documents the parser cannot tokenize are C01's business (skipped, counted); non-trivial = scan that reported at least one failure"
)
STATES_MEANING = (
    "distinct observable scan outcomes (exit code, multiset of reporting rules); transitions = scan executions of the real application"
)
ASSUMPTIONS = [
    "line and column ranges are judged against the lines as the application delivers them (text.split('\\n')), "
    "columns against the longer of the raw and the tab-expanded line, plus one",
]

_PLUGIN_ERR = re.compile(r"Plugin id '([A-Za-z0-9]+)' had a critical failure during the '([a-z_]+)' action")


# narrow and deep: sibling / nested ordered sub-lists with and without a mis-indented item
SIGMA_OL5 = ["1. a", "2. a", "   1. a", "   2. a", "    2. a"]


def space(tier):
    rules = configs.all_rules()
    singles = [f"only:{r}" for r in rules]
    if tier == "thorough":
        parts = [
            spaces.ConfigDocSpace(spaces.block_space("rule", 3), ["default", "all"]),
            spaces.ConfigDocSpace(spaces.block_space("rule", 2), singles),
            spaces.ConfigDocSpace(spaces.block_space("core", 4), ["default", "all"]),
            spaces.ConfigDocSpace(spaces.block_space("wide", 2), ["default", "all"] + singles),
            spaces.ConfigDocSpace(spaces.ProductSpace("B(mli,4)", spaces.SIGMA_MLI, 4), ["default", "all"]),
            spaces.ConfigDocSpace(spaces.inline_wide_space(3, (0,))[0], ["default", "all"]),
            spaces.ConfigDocSpace(spaces.mix_space(tier), ["default", "all"]),
            spaces.ConfigDocSpace(spaces.para_space(tier), ["default", "all"]),
        ]
    else:
        parts = [
            spaces.ConfigDocSpace(spaces.block_space("rule", 2), ["default", "all"]),
            spaces.ConfigDocSpace(spaces.block_space("rule", 1), singles),
            spaces.ConfigDocSpace(spaces.block_space("wide", 1), singles),
            spaces.ConfigDocSpace(spaces.block_space("core", 3), ["default", "all"]),
            spaces.ConfigDocSpace(spaces.block_space("wide", 2), ["default", "all"]),
            spaces.ConfigDocSpace(spaces.ProductSpace("B(mli,3)", spaces.SIGMA_MLI, 3), ["default", "all"]),
            spaces.ConfigDocSpace(spaces.inline_wide_space(2, (0,))[0], ["default", "all"]),
            spaces.ConfigDocSpace(spaces.mix_space(tier), ["default", "all"]),
            spaces.ConfigDocSpace(spaces.para_space(tier), ["default", "all"]),
            spaces.ConfigDocSpace(spaces.ProductSpace("B(ol5,6)", SIGMA_OL5, 6, minlen=4), ["default"]),
        ]
    return spaces.UnionSpace(f"scan-{tier}", parts)


def evaluate(payload):
    cfg, text = payload
    args = configs.config_args(cfg) + ["scan", "t.md"]
    res = {"fail": None, "feeds": 1}
    st, _v, _w = parser.parse(text)
    if st != "ok":
        res["outcome"] = "parse-failed"
        res["count"] = {"skipped_parse_failed": 1}
        return res
    with app.Sandbox({"t.md": text}) as sb:
        r = app.run_main(args, sb)
        if r.rc == "timeout":
            res["fail"] = ("scan-hang", "scan did not finish within the CPU guard although the document parses")
            res["outcome"] = "scan-hang"
            return res
        if "BadTokenizationError" in r.err:
            res["outcome"] = "parse-failed"
            res["count"] = {"skipped_parse_failed": 1}
            return res
        m = _PLUGIN_ERR.search(r.err)
        if m:
            sig = f"plugin-error:{m.group(1).upper()}:{m.group(2)}"
            res["fail"] = (sig, r.err.strip()[:400])
            res["outcome"] = sig
            return res
        if r.rc not in (0, 1) or r.err.strip():
            sig = f"scan-error:rc={r.rc}"
            res["fail"] = (sig, (r.err.strip() or r.out.strip())[:400])
            res["outcome"] = sig
            return res
        fails, other = app.parse_failures(r.out)
        if other:
            res["fail"] = ("unparsed-output", other[:3])
            res["outcome"] = "unparsed-output"
            return res
        lines = text.split("\n")
        prev = None
        seen_lines = set()
        for ln_text in r.out.splitlines():
            if ln_text in seen_lines:
                mm = re.search(r": ([A-Z]+\d+): ", ln_text)
                res["fail"] = ("duplicate-report:" + (mm.group(1) if mm else "?"), f"printed twice: {ln_text}")
                break
            seen_lines.add(ln_text)
        for f in [] if res["fail"] else fails:
            ln, col, rule = f["line"], f["col"], f["rule"]
            if not 1 <= ln <= len(lines):
                sig = f"range:{rule}:line"
                res["fail"] = (sig, f"{rule} reported at line {ln}, column {col}; the file has {len(lines)} lines")
                break
            width = max(len(lines[ln - 1]), len(expand(lines[ln - 1])))
            if not 1 <= col <= width + 1:
                sig = f"range:{rule}:column"
                res["fail"] = (sig, f"{rule} reported at {ln}:{col}; line {ln} is {lines[ln - 1]!r}")
                break
            k = (ln, col, rule)
            if prev is not None and not prev <= k:
                sig = "order"
                res["fail"] = (sig, f"{k} printed after {prev}")
                break
            prev = k
        if res["fail"] is None and common.case_hash_int(cfg + "|" + text) % 8 == 0:
            res["count_repeat"] = 1
            r2 = app.run_main(args, sb)
            if (r2.rc, r2.out, r2.err) != (r.rc, r.out, r.err):
                res["fail"] = ("not-repeatable", {"first": r.out, "second": r2.out})
        res["nontrivial"] = bool(fails)
        res["states"] = [(r.rc, tuple(sorted({f["rule"] for f in fails})))]
        res["outcome"] = res["fail"][0] if res["fail"] else f"rc{r.rc}:" + ",".join(sorted({f["rule"] for f in fails}))
        res["count"] = {"failures_reported": len(fails), "repeated_in_process": res.pop("count_repeat", 0)}
        return res


HASHSEED_DOCS = [
    "# a\n\n### b  \n* x\n+ y\n\n```\nq\n```\n# a\n",
    "a\n## a",
    "> - a\n>   b\n\n1. a\n1. b\n\t\n<b>\n\n[a]()\n",
    "- a\n\n\n  b\nhttp://a.b *a* ` c `\n***\n---\n",
]


def _hashseed_task(task):
    """the real CLI in fresh processes under different hash seeds must print the same thing"""
    i, cfg = task
    text = HASHSEED_DOCS[i]
    outs = []
    with app.Sandbox({"t.md": text}) as sb:
        for seed in ("0", "1", "12345"):
            import subprocess
            env = common.child_env({"TMPDIR": sb.tmp, "PYTHONHASHSEED": seed})
            r = subprocess.run([common.PYTHON, "-m", "pymarkdown"] + configs.config_args(cfg) + ["scan", "t.md"],
                               cwd=sb.cwd, env=env, capture_output=True, text=True, check=False)
            outs.append((r.returncode, r.stdout, r.stderr))
    return (i, cfg, outs)


def extra_cases(tier):
    from .. import pool

    tasks = [(i, c) for i in range(len(HASHSEED_DOCS)) for c in ("default", "all")]
    cases = []
    n = 0
    for i, cfg, outs in pool.pmap(_hashseed_task, tasks):
        n += len(outs)
        if len({o for o in outs}) != 1:
            import json
            cases.append((json.dumps([cfg, HASHSEED_DOCS[i]]), "not-repeatable-across-hash-seeds", [o[1] for o in outs]))
    return cases, {"fresh_process_runs_under_3_hash_seeds": n}


def classify(key, sig, detail):
    if sig.startswith("plugin-error"):
        _, rule, action = sig.split(":")
        return sig, f"rule {rule} raises inside its {action} callback (BadPluginError, scan aborts with exit 1)"
    if sig.startswith("range"):
        _, rule, what = sig.split(":")
        return sig, f"rule {rule} reports a {what} outside the file"
    if sig.startswith("duplicate-report"):
        return sig, f"rule {sig.split(':')[1]} prints the same failure line twice for one file"
    return sig, f"scan output violates the contract: {sig}"


def run(tier, return_info=False):
    rc, info = sweep.run_doc_check(sys.modules[__name__], tier)
    return info if return_info else rc


def replay(path):
    return sweep.replay_doc(sys.modules[__name__], path)
