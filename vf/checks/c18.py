"""C18 - exit codes follow the documented table in both schemes (DESIGN 3, C18)."""
import itertools
import json
import sys

from .. import app, inject, spaces, sweep

PROP = "C18"
CHUNK = 200
RULE = (
    "every outcome category produced in every way the application can produce it: scan/fix over every ordered list of 1-2 and every multiset of 3 "
    "file outcomes (clean, failing, fixable, plugin crash, parser crash, undecodable, missing, ineligible, empty directory, glob without match) x "
    "continue-on-error x scheme {unset, default, minimal} given by argument, --set, configuration file, or both; plus every non-file sub-command and bad-argument / bad-configuration scenario; "
    "non-trivial = run whose expected category is not SUCCESS"
)
STATES_MEANING = "distinct (category, scheme, exit code) triples observed; transitions = application executions"
ASSUMPTIONS = [
    "table transcribed from newdocs/src/user-guide.md (--return-code-scheme); the expected category is derived from the constructed scenario and from "
    "observables measured by the harness (bytes changed, failure lines printed), never from the implementation's flags",
    "plugin faults are injected through a rule loaded with --add-plugin, parser faults through a wrapper on TokenizedMarkdown.transform_from_provider",
]

TABLE = {
    "SUCCESS": (0, 0),
    "NO_FILES_TO_SCAN": (1, 0),
    "COMMAND_LINE_ERROR": (2, 2),
    "FIXED_AT_LEAST_ONE_FILE": (3, 0),
    "SCAN_TRIGGERED_AT_LEAST_ONCE": (1, 0),
    "SYSTEM_ERROR": (1, 1),
}
OUTCOMES = ["clean", "failing", "fixable", "plugincrash", "parsercrash", "undecodable", "missing", "ineligible", "emptydir", "globnomatch"]
CONTENT = {
    "clean": "# a\n",
    "failing": "# a\n# b\n",
    "fixable": "#  a\n",
    "plugincrash": "# a\n\nCRASHME\n",
    "parsercrash": "# a\n\nPARSECRASH\n",
    "undecodable": b"\xff\xfe# a\n",
}
SCHEMES = [("unset", None), ("default", "arg"), ("minimal", "arg"), ("minimal", "set"), ("minimal", "file"), ("default", "file"), ("minimal", "both"), ("default", "both")]
OTHER = [
    ("plugins-list", ["plugins", "list"], "SUCCESS"),
    ("plugins-list-nomatch", ["plugins", "list", "zzz*"], "LOOKUP_FAILED"),
    ("plugins-info", ["plugins", "info", "md001"], "SUCCESS"),
    ("plugins-info-unknown", ["plugins", "info", "md9999"], "LOOKUP_FAILED"),
    ("plugins-none", ["plugins"], "COMMAND_LINE_ERROR"),
    ("extensions-list", ["extensions", "list"], "SUCCESS"),
    ("extensions-info", ["extensions", "info", "front-matter"], "SUCCESS"),
    ("extensions-info-unknown", ["extensions", "info", "nope"], "LOOKUP_FAILED"),
    ("extensions-none", ["extensions"], "COMMAND_LINE_ERROR"),
    ("version", ["version"], "SUCCESS"),
    ("no-subcommand", [], "COMMAND_LINE_ERROR"),
    ("unknown-option", ["--bogus", "scan", "f.md"], "COMMAND_LINE_ERROR"),
    ("bad-ae", ["scan", "-ae", "md", "f.md"], "COMMAND_LINE_ERROR"),
    ("scan-no-path", ["scan"], "COMMAND_LINE_ERROR"),
    ("fix-no-path", ["fix"], "COMMAND_LINE_ERROR"),
    ("scan-stdin-clean", ["scan-stdin"], "SUCCESS"),
    ("scan-stdin-failing", ["scan-stdin"], "SCAN_TRIGGERED_AT_LEAST_ONCE"),
    ("scan-l", ["scan", "-l", "f.md"], "SUCCESS"),
    ("fix-l", ["fix", "-l", "f.md"], "SUCCESS"),
    ("scan-l-nomatch", ["scan", "-l", "n*.md"], "NO_FILES_TO_SCAN"),
    ("config-missing", ["--config", "nope.json", "scan", "f.md"], "SYSTEM_ERROR"),
    ("config-unparseable", ["--config", "bad.json", "scan", "f.md"], "SYSTEM_ERROR"),
    ("strict-violation", ["--strict-config", "--set", "plugins.md013.line_length=$#-1", "scan", "f.md"], "SYSTEM_ERROR"),
    ("add-plugin-missing", ["--add-plugin", "nope.py", "scan", "f.md"], "SYSTEM_ERROR"),
]


class ExitSpace(spaces.Space):
    SINGLE_DELETION = False

    def __init__(self, tier):
        self.name = f"exit-{tier}"
        lists = [()]
        lists = []
        for n in (1, 2):
            lists += list(itertools.product(OUTCOMES, repeat=n))
        lists += list(itertools.combinations_with_replacement(OUTCOMES, 3))
        if tier == "thorough":
            lists = []
            for n in (1, 2, 3):
                lists += list(itertools.product(OUTCOMES, repeat=n))
        self.cases = []
        for fl in lists:
            for cmd in ("scan", "fix"):
                for coe in (False, True):
                    for sch in SCHEMES:
                        self.cases.append(("files", cmd, fl, coe, sch))
        for name, argv, cat in OTHER:
            for sch in SCHEMES:
                self.cases.append(("other", name, (), False, sch))
        # bad scheme values
        self.cases.append(("other", "bad-scheme-arg", (), False, ("unset", None)))
        self.cases.append(("other", "bad-scheme-set", (), False, ("unset", None)))

    def __len__(self):
        return len(self.cases)

    def case(self, i):
        return (self.name, self.cases[i])

    def key(self, case):
        return json.dumps(case[1])

    def text(self, case):
        return self.key(case)

    def payload(self, case):
        return case[1]

    def payload_from_key(self, key):
        k = json.loads(key)
        return (k[0], k[1], tuple(k[2]), k[3], tuple(k[4]))

    def subcases(self, case):
        kind, cmd, fl, coe, sch = case[1]
        if kind != "files":
            return
        n = len(fl)
        for r in range(n - 1, 0, -1):
            for idx in itertools.combinations(range(n), r):
                yield (self.name, (kind, cmd, tuple(fl[i] for i in idx), coe, sch))

    def describe(self):
        return {"name": self.name, "size": len(self.cases)}


def space(tier):
    return ExitSpace(tier)


def init():
    inject.install_parser_fault()


def _scheme_args(sch, files):
    """returns (args before the sub-command, effective scheme)"""
    name, src = sch
    if name == "unset":
        return [], "default"
    other = "minimal" if name == "default" else "default"
    if src == "arg":
        return ["--return-code-scheme", name], name
    if src == "set":
        return ["--set", f"mode.return_code_scheme={name}"], name
    if src == "file":
        files[".pymarkdown"] = json.dumps({"mode": {"return_code_scheme": name}})
        return [], name
    files[".pymarkdown"] = json.dumps({"mode": {"return_code_scheme": other}})
    return ["--return-code-scheme", name], name


def evaluate(payload):
    init()
    kind, cmd, fl, coe, sch = payload
    sch = tuple(sch)
    files = {}
    res = {"fail": None, "feeds": 1}
    pre, eff = _scheme_args(sch, files)
    col = 0 if eff == "default" else 1
    stdin = None
    if kind == "other":
        if cmd == "bad-scheme-arg":
            argv, cat = ["--return-code-scheme", "x", "scan", "f.md"], "COMMAND_LINE_ERROR"
        elif cmd == "bad-scheme-set":
            argv, cat = ["--set", "mode.return_code_scheme=bad", "scan", "f.md"], "SYSTEM_ERROR"
        else:
            _n, argv, cat = next(o for o in OTHER if o[0] == cmd)
        files["f.md"] = CONTENT["clean"]
        files["bad.json"] = "{not json"
        if cmd.startswith("scan-stdin"):
            stdin = CONTENT["failing"] if cmd.endswith("failing") else CONTENT["clean"]
        argv = pre + list(argv)
        with app.Sandbox(files) as sb:
            r = app.run_main(argv, sb, stdin_text=stdin)
    else:
        args = []
        original = {}
        for i, oc in enumerate(fl):
            if oc in CONTENT:
                name = f"f{i}_{oc}.md"
                files[name] = CONTENT[oc]
                original[name] = CONTENT[oc] if isinstance(CONTENT[oc], bytes) else CONTENT[oc].encode()
                args.append(name)
            elif oc == "missing":
                args.append(f"f{i}_nope.md")
            elif oc == "ineligible":
                files[f"f{i}_c.txt"] = "# a\n"
                args.append(f"f{i}_c.txt")
            elif oc == "emptydir":
                files[f"f{i}_e/"] = None
                args.append(f"f{i}_e")
            elif oc == "globnomatch":
                args.append(f"f{i}_n*.md")
        argv = pre + ["--add-plugin", inject.CRASH_PLUGIN] + (["--continue-on-error"] if coe else []) + [cmd] + args
        with app.Sandbox(files) as sb:
            r = app.run_main(argv, sb)
            changed = any(sb.read(n) != original[n] for n in original)
        fails, _other = app.parse_failures(r.out)
        if any(o in ("missing", "ineligible", "globnomatch") for o in fl):
            cat = "NO_FILES_TO_SCAN"
        elif all(o == "emptydir" for o in fl):
            cat = "NO_FILES_TO_SCAN"
        elif any(o in ("plugincrash", "parsercrash", "undecodable") for o in fl):
            cat = "SYSTEM_ERROR"
        elif cmd == "fix" and changed:
            cat = "FIXED_AT_LEAST_ONE_FILE"
        elif fails:
            cat = "SCAN_TRIGGERED_AT_LEAST_ONCE"
        else:
            cat = "SUCCESS"
    if r.rc == "timeout":
        res["fail"] = ("hang", "application did not finish")
        return res
    if cat == "LOOKUP_FAILED":
        # the guide names no category for a failed plugin/extension lookup: it must at least be a
        # row of the table that signals a problem (not SUCCESS's 0 under the default scheme)
        ok = r.rc in {TABLE[c][col] for c in ("NO_FILES_TO_SCAN", "COMMAND_LINE_ERROR", "SYSTEM_ERROR")} and not (eff == "default" and r.rc == 0)
        exp = "a non-success row"
    else:
        exp = TABLE[cat][col]
        ok = r.rc == exp
    res["states"] = [(cat, eff, r.rc)]
    res["nontrivial"] = cat != "SUCCESS"
    if not ok:
        res["fail"] = (f"exit:{cat}:{eff}:got{r.rc}", {"argv": argv, "expected": exp, "got": r.rc, "stderr": r.err[-300:], "stdout": r.out[-200:]})
    res["outcome"] = res["fail"][0] if res["fail"] else f"{cat}:{eff}:{r.rc}"
    return res


def classify(key, sig, detail):
    _e, cat, eff, got = sig.split(":")
    return f"{cat}-{got}", f"outcome category {cat} ends with exit code {got[3:]} instead of the documented {TABLE.get(cat, ('?', '?'))} (default/minimal)"


def run(tier, return_info=False):
    rc, info = sweep.run_doc_check(sys.modules[__name__], tier)
    return info if return_info else rc


def replay(path):
    return sweep.replay_doc(sys.modules[__name__], path)
