"""C12 - rules are independent: reports under a rule set = union of each rule alone (DESIGN 3, C12)."""
import collections
import sys

from .. import app, configs, parser, spaces, sweep

PROP = "C12"
CHUNK = 24
RULE = (
    "documents x {each registered rule alone, all rules, default set, default set minus each rule}; the multiset of "
    "(line, column, rule, message) under a set must equal the union of the single-rule runs; non-trivial = document on which at least two different rules report"
)
STATES_MEANING = "distinct multisets of reporting rules observed under 'all rules'; transitions = scan executions of the real application"


def space(tier):
    if tier == "thorough":
        parts = [spaces.block_space("rule", 2), spaces.block_space("core", 3), spaces.block_space("wide", 2)]
    else:
        parts = [spaces.block_space("rule", 2), spaces.block_space("core", 1), spaces.block_space("wide", 1)]
    return spaces.UnionSpace(f"indep-{tier}", parts)


def _scan(sb, cfg):
    r = app.run_main(configs.config_args(cfg) + ["scan", "t.md"], sb)
    if r.rc == "timeout" or r.err.strip() or r.rc not in (0, 1):
        return None
    fails, other = app.parse_failures(r.out)
    return collections.Counter((f["line"], f["col"], f["rule"], f["desc"]) for f in fails)


def evaluate(text):
    res = {"fail": None, "feeds": 0}
    st, _v, _w = parser.parse(text)
    if st != "ok":
        res["outcome"] = "parse-failed"
        return res
    t = app.rule_table()
    rules = sorted(t)
    default = [r for r in rules if t[r]["enabled_default"]]
    with app.Sandbox({"t.md": text}) as sb:
        alone = {}
        for r in rules:
            alone[r] = _scan(sb, f"only:{r}")
            res["feeds"] += 1
            if alone[r] is None:
                res["outcome"] = "scan-error"
                res["count"] = {"skipped_scan_error": 1}
                return res

        def union(rs):
            c = collections.Counter()
            for r in rs:
                c.update(alone[r])
            return c

        checks = [("all", rules), ("default", default)] + [(f"default-minus:{r}", [x for x in default if x != r]) for r in default]
        for cfg, rs in checks:
            got = _scan(sb, cfg)
            res["feeds"] += 1
            if got is None:
                res["outcome"] = "scan-error"
                res["count"] = {"skipped_scan_error": 1}
                return res
            exp = union(rs)
            if got != exp:
                extra = sorted((got - exp).elements())
                missing = sorted((exp - got).elements())
                involved = sorted({x[2] for x in extra + missing})
                kind = cfg.split(":")[0]
                res["fail"] = (f"differs:{kind}:" + "+".join(involved), {"configuration": cfg, "only_with_the_set": extra, "only_alone": missing})
                break
        allc = union(rules)
        who = tuple(sorted({k[2] for k in allc}))
        res["nontrivial"] = len(who) >= 2
        res["states"] = [who]
        res["outcome"] = res["fail"][0] if res["fail"] else "union-holds:" + ",".join(who)
    return res


def classify(key, sig, detail):
    return sig, f"reports of {sig.split(':')[2]} change when other rules are enabled/disabled ({sig.split(':')[1]} set vs each rule alone)"


def run(tier, return_info=False):
    rc, info = sweep.run_doc_check(sys.modules[__name__], tier)
    return info if return_info else rc


def replay(path):
    return sweep.replay_doc(sys.modules[__name__], path)
