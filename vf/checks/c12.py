"""C12 - rules are independent: reports under a rule set = union of each rule alone (DESIGN 3, C12)."""
import collections
import sys

from .. import app, configs, parser, spaces, sweep

PROP = "C12"
CHUNK = 24
RULE = (
    "documents x {each registered rule alone, all rules, default set, default set minus each rule}; the multiset of "
    "(line, column, rule, message) under a set must equal the union of the single-rule runs; non-trivial = document on which at least two different rules report"
)
STATES_MEANING = "distinct multisets of reporting rules observed under 'all rules'; transitions = scan executions of the real application"


SIGMA_BQ3 = ["> a", ">", "> > a"]
SIGMA_LI4 = ["- a", "  - a", "  a", ""]
# lines on which two rules report at once, with pragmas naming one or both of them
_LONG = "x" * 82 + " y"
SIGMA_PRAGMA_MULTI = ["<!-- pyml disable-next-line md009-->", "<!-- pyml disable-next-line md013,md009-->", _LONG + "   ", "#  a   ", ""]
DEEP_FROM = 4  # documents of at least this many lines use the pruned configuration set


def space(tier):
    if tier == "thorough":
        parts = [spaces.block_space("rule", 2), spaces.block_space("core", 3), spaces.block_space("wide", 2)]
        parts += [spaces.ProductSpace("B(pragma-multi,4)", SIGMA_PRAGMA_MULTI, 4)]
        parts += [spaces.ProductSpace("B(bq3,8)", SIGMA_BQ3, 8, minlen=4), spaces.ProductSpace("B(li4,7)", SIGMA_LI4, 7, minlen=4), spaces.ProductSpace("B(mix,4)", spaces.SIGMA_MIX, 4, minlen=4)]
    else:
        parts = [spaces.block_space("rule", 2), spaces.block_space("core", 1), spaces.block_space("wide", 1)]
        parts += [spaces.ProductSpace("B(bq3,7)", SIGMA_BQ3, 7, minlen=4), spaces.ProductSpace("B(li4,5)", SIGMA_LI4, 5, minlen=4)]
        parts += [spaces.ProductSpace("B(pragma-multi,3)", SIGMA_PRAGMA_MULTI, 3)]
    return spaces.UnionSpace(f"indep-{tier}", parts)


def _scan(sb, cfg):
    r = app.run_main(configs.config_args(cfg) + ["scan", "t.md"], sb)
    if r.rc == "timeout" or r.err.strip() or r.rc not in (0, 1):
        return None
    fails, other = app.parse_failures(r.out)
    return collections.Counter((f["line"], f["col"], f["rule"], f["desc"]) for f in fails)


def evaluate(text):
    res = {"fail": None, "feeds": 0}
    st, _v, _w = parser.parse(text)
    if st != "ok":
        res["outcome"] = "parse-failed"
        return res
    t = app.rule_table()
    rules = sorted(t)
    default = [r for r in rules if t[r]["enabled_default"]]
    if text.count("\n") + 1 >= DEEP_FROM:
        return _deep(text, res, rules, default)
    with app.Sandbox({"t.md": text}) as sb:
        alone = {}
        for r in rules:
            alone[r] = _scan(sb, f"only:{r}")
            res["feeds"] += 1
            if alone[r] is None:
                res["outcome"] = "scan-error"
                res["count"] = {"skipped_scan_error": 1}
                return res

        def union(rs):
            c = collections.Counter()
            for r in rs:
                c.update(alone[r])
            return c

        checks = [("all", rules), ("default", default)] + [(f"default-minus:{r}", [x for x in default if x != r]) for r in default]
        for cfg, rs in checks:
            got = _scan(sb, cfg)
            res["feeds"] += 1
            if got is None:
                res["outcome"] = "scan-error"
                res["count"] = {"skipped_scan_error": 1}
                return res
            exp = union(rs)
            if got != exp:
                extra = sorted((got - exp).elements())
                missing = sorted((exp - got).elements())
                involved = sorted({x[2] for x in extra + missing})
                kind = cfg.split(":")[0]
                res["fail"] = (f"differs:{kind}:" + "+".join(involved), {"configuration": cfg, "only_with_the_set": extra, "only_alone": missing})
                break
        allc = union(rules)
        who = tuple(sorted({k[2] for k in allc}))
        res["nontrivial"] = len(who) >= 2
        res["states"] = [who]
        res["outcome"] = res["fail"][0] if res["fail"] else "union-holds:" + ",".join(who)
    return res


def _deep(text, res, rules, default):
    """deep, narrow documents: 'all' and 'default' first; then each rule alone and default-minus-rule
    only for the rules that report under either (a rule silent under both is not re-run alone)"""
    with app.Sandbox({"t.md": text}) as sb:
        got_all = _scan(sb, "all")
        got_def = _scan(sb, "default")
        res["feeds"] += 2
        if got_all is None or got_def is None:
            res["outcome"] = "scan-error"
            res["count"] = {"skipped_scan_error": 1}
            return res
        who = sorted({k[2].lower() for k in got_all} | {k[2].lower() for k in got_def})
        alone = {}
        for r in who:
            alone[r] = _scan(sb, f"only:{r}")
            res["feeds"] += 1
            if alone[r] is None:
                res["outcome"] = "scan-error"
                return res
        fail = None
        for name, got, rs in (("all", got_all, rules), ("default", got_def, default)):
            exp = collections.Counter()
            for r in who:
                if r in rs:
                    exp.update(alone[r])
            if got != exp:
                extra = sorted((got - exp).elements())
                missing = sorted((exp - got).elements())
                fail = (f"differs:{name}:" + "+".join(sorted({x[2] for x in extra + missing})), {"configuration": name, "only_with_the_set": extra, "only_alone": missing})
                break
        if fail is None:
            for r in who:
                if r not in default:
                    continue
                got = _scan(sb, f"default-minus:{r}")
                res["feeds"] += 1
                if got is None:
                    continue
                exp = collections.Counter()
                for x in who:
                    if x in default and x != r:
                        exp.update(alone[x])
                if got != exp:
                    extra = sorted((got - exp).elements())
                    missing = sorted((exp - got).elements())
                    fail = (f"differs:default-minus:" + "+".join(sorted({x[2] for x in extra + missing})), {"configuration": f"default-minus:{r}", "only_with_the_set": extra, "only_alone": missing})
                    break
    res["nontrivial"] = len(who) >= 2
    res["states"] = [tuple(who)]
    res["fail"] = fail
    res["outcome"] = fail[0] if fail else "union-holds(deep):" + ",".join(who)
    return res


def classify(key, sig, detail):
    return sig, f"reports of {sig.split(':')[2]} change when other rules are enabled/disabled ({sig.split(':')[1]} set vs each rule alone)"


def run(tier, return_info=False):
    rc, info = sweep.run_doc_check(sys.modules[__name__], tier)
    return info if return_info else rc


def replay(path):
    return sweep.replay_doc(sys.modules[__name__], path)
