"""C01 - parsing is total and bounded (DESIGN 3, C01)."""
import time

from .. import common, evidence, parser, pool, spaces, sweep

PROP = "C01"
RULE = (
    "every sequence of 1..L lines over the block alphabets and every string of 1..k inline atoms in each "
    "context, plus every one-line extension of every reachable abstract parser state up to depth D; "
    "non-trivial = the token stream holds at least one container token and one leaf block other than a paragraph"
)
ASSUMPTIONS = [
    "documents of more than 3 lines are parsed under a CPU-time guard instead of the event budget: for them only termination is decided, not the per-line work bound",
    "work is measured in interpreter events (PY_START + JUMP) of the parsing call; C-level string operations are not counted",
    "the polynomial claim is supported by the measured scaling families up to n=128 (degree<=3), not proved",
]
WORK_PER_LINE = 40_000
MONITORED_LINES = 3
CONTAINERS = {"block-quote", "ulist", "olist"}
LEAVES = {"atx", "setext", "tbreak", "fcode-block", "icode-block", "html-block", "link-ref-def"}


def space(tier):
    return spaces.parser_space(tier)


def frontier(tier):
    return (spaces.SIGMA_WIDE, 8 if tier == "thorough" else 6)


def evaluate(text):
    lines = text.split("\n")
    budget = WORK_PER_LINE * (len(lines) + 2)
    # documents of up to MONITORED_LINES lines run under the deterministic event budget (which also
    # checks the per-line work bound); longer ones under the CPU-time guard only (1.8x cheaper):
    # a parse that does not terminate is cut off either way
    st, v, w, states = parser.parse_with_states(lines, None, budget if len(lines) <= MONITORED_LINES else None)
    res = {"states": [s for s in states if s is not None], "feeds": len(lines)}
    if st == "ok":
        names = {t.token_name for t in v}
        res["nontrivial"] = bool(names & CONTAINERS) and bool(names & LEAVES)
        res["outcome"] = ",".join(sorted(names))
        res["fail"] = None
    elif st == "exc":
        res["fail"] = (v, f"parser raised {v}")
        res["outcome"] = "EXC:" + v
    else:
        sig = "nontermination"
        res["fail"] = (sig, f"work exceeded {budget} interpreter events for {len(lines)} lines ({st})")
        res["outcome"] = sig
    res["count"] = {"work_events": w}
    return res


# ------------------------------------------------------------------ scaling families


def _pump_block(lines, n):
    """three ways of pumping a 1-2 line pattern: repeated, nested, as one paragraph"""
    pat = "\n".join(lines)
    out = {}
    out["rep"] = "\n".join([pat] * n)
    # nested: every copy indented under the previous one (list items) / prefixed by its own
    # container prefix (block quotes) - approximated by prefixing k copies of the first line's
    # leading marker
    first = lines[0]
    marker = ""
    for m in ("> ", "- ", "1. ", "+ ", "* "):
        if first.startswith(m):
            marker = m
            break
    if marker == "> ":
        out["nest"] = "\n".join(marker * n + l for l in lines)
    elif marker:
        out["nest"] = "\n".join(" " * (len(marker) * i) + pat.replace("\n", "\n" + " " * (len(marker) * i)) for i in range(n))
    out["para"] = " ".join([pat.replace("\n", " ")] * n)
    return out


def _families():
    fams = {}
    wide2 = spaces.block_space("wide", 2)
    for i in range(len(wide2)):
        case = wide2.case(i)
        lines = case[1]
        for kind, mk in (("rep", 0), ("nest", 0), ("para", 0)):
            fams[(kind,) + lines] = None
    return fams


def _family_doc(key, n):
    kind, lines = key[0], key[1:]
    if kind in ("rep", "nest", "para"):
        return _pump_block(lines, n).get(kind)
    if kind == "inl":
        return "".join(lines) * n
    if kind == "btrun":
        return " ".join("`" * i for i in range(1, n + 1))
    if kind == "nestlist":
        return "\n".join("  " * i + "- a" for i in range(n))
    if kind == "nestol":
        return "\n".join("   " * i + "1. a" for i in range(n))
    if kind == "brackets":
        return "[" * n + "a" + "]" * n
    if kind == "lrds":
        return "\n".join(f"[a{i}]: /u" for i in range(n)) + "\n\n" + " ".join(f"[a{i}]" for i in range(n))
    if kind == "lrdfail":
        return "[a]: /u 'x\n" + "b\n" * n
    if kind == "emphnest":
        return "*" * n + "a" + "*" * n
    if kind == "emphopen":
        return "*a " * n
    if kind == "links_nested":
        return "[" * n + "a" + "](/u)" * n
    return None


_TIER = ["quick"]


def _measure(key):
    """W at each size; returns (key, [(n, chars, status, work)])"""
    tm_budget = 60_000_000
    row = []
    # families whose one-copy document already fails belong to the exhaustive layer
    base = _family_doc(key, 1)
    if base is None or _fails(base) is not None:
        return key, None
    for n in _sizes(_TIER[0]):
        doc = _family_doc(key, n)
        if doc is None:
            return key, None
        st, v, w = parser.parse(doc, None, tm_budget)
        row.append((n, len(doc), st, v if st == "exc" else None, w))
        if st != "ok":
            break
    return key, row


def _family_keys(tier):
    keys = []
    if tier == "thorough":
        pats = [spaces.block_space("wide", 2).case(i)[1] for i in range(len(spaces.block_space("wide", 2)))]
    else:
        core2 = spaces.block_space("core", 2)
        pats = [core2.case(i)[1] for i in range(len(core2))]
        pats += [(l,) for l in spaces.SIGMA_WIDE if l not in spaces.SIGMA_CORE]
    for lines in pats:
        for kind in ("rep", "nest", "para"):
            if kind == "nest" and not any(lines[0].startswith(m) for m in ("> ", "- ", "1. ", "+ ", "* ")):
                continue
            keys.append((kind,) + tuple(lines))
    inl2 = spaces.ProductSpace("I2", spaces.SIGMA_INL, 2 if tier == "quick" else 3, joiner="")
    for i in range(len(inl2)):
        keys.append(("inl",) + tuple(inl2.case(i)[1]))
    for k in ("btrun", "nestlist", "nestol", "brackets", "lrds", "lrdfail", "emphnest", "emphopen", "links_nested"):
        keys.append((k,))
    return keys


def _sizes(tier):
    return (16, 32, 64, 128) if tier == "thorough" else (16, 32, 64)


def _fails(doc):
    f = evaluate(doc)["fail"]
    return f[0] if f is not None else None


def _reduce(doc, sig):
    """greedy line-deletion reduction (deterministic): a failing document from which no single
    line can be deleted without losing the failure signature"""
    lines = doc.split("\n")
    if len(lines) == 1:
        # one long line of n copies: halve while it still fails
        words = lines[0].split(" ")
        while len(words) > 1:
            half = words[: len(words) // 2]
            if _fails(" ".join(half)) == sig:
                words = half
            else:
                break
        return " ".join(words)
    # first chunks, then single lines
    size = len(lines) // 2
    while size >= 1:
        i = 0
        while i < len(lines) and len(lines) > 1:
            cand = lines[:i] + lines[i + size :]
            if cand and _fails("\n".join(cand)) == sig:
                lines = cand
            else:
                i += size
        size //= 2
    return "\n".join(lines)


def _measure_and_reduce(key):
    key, row = _measure(key)
    red = None
    if row is not None and row[-1][2] != "ok":
        n = row[-1][0]
        doc = _family_doc(key, n)
        sig = _fails(doc)
        if sig is not None:
            red = (_reduce(doc, sig), sig, n)
        else:
            # fails only under the (larger) scaling budget but within the per-line work bound
            red = None
    return key, row, red


def extra_cases(tier):
    import math

    _TIER[0] = tier
    keys = _family_keys(tier)
    rows = pool.pmap(_measure_and_reduce, keys)
    cases = []
    signals = []
    worst = []
    n_meas = 0
    n_docs = 0
    crashed = 0
    for key, row, red in rows:
        if row is None:
            continue
        n_meas += 1
        n_docs += len(row)
        if red is not None:
            crashed += 1
            cases.append((red[0], red[1], f"pumped family {list(key)!r} fails at n={red[2]}; reduced by line deletion"))
        prev = None
        for n, chars, st, sig, w in row:
            if st != "ok":
                break
            if prev is not None and prev[0] >= (32 if tier == "thorough" else 16):
                pn, pchars, pw = prev
                g = chars / pchars if pchars else 2.0
                ratio = w / pw if pw else 0.0
                if g > 1.01 and ratio > 0:
                    deg = math.log(ratio) / math.log(g)
                    worst.append((round(deg, 2), key, n))
                    if deg > math.log(9) / math.log(2):
                        doc = _family_doc(key, n)
                        cases.append(
                            (doc, "superpolynomial-growth", f"work grows with degree {deg:.2f} between n={pn} and n={n} in family {list(key)!r} (W={pw}->{w})")
                        )
                    elif deg > math.log(5) / math.log(2):
                        signals.append((list(key), n, round(deg, 2)))
            prev = (n, chars, w)
    worst.sort(key=lambda x: (-x[0], repr(x[1])))
    cov = {
        "scaling": {
            "families_measured": n_meas,
            "documents_parsed": n_docs,
            "sizes": list(_sizes(tier)),
            "families_with_a_failing_pumped_document": crashed,
            "worse_than_quadratic_signals": signals[:20],
            "largest_growth_degrees": [(d, list(k), n) for d, k, n in worst[:10]],
            "violation_threshold": "size-doubling step (from n>=32 thorough, n>=16 quick) with growth degree > log2(9) (worse than cubic)",
        }
    }
    return cases, cov


def run(tier, return_info=False):
    rc, info = sweep.run_doc_check(_Self, tier)
    return info if return_info else rc


def replay(path):
    return sweep.replay_doc(_Self, path)


import sys as _sys

_Self = _sys.modules[__name__]


def classify(key, sig, detail):
    if sig == "nontermination":
        return sig, "the parser does not terminate (work budget exceeded; loops in the container-closing code)"
    return sig, f"the parser fails with an internal error ({sig}); the user sees a tokenization error"
