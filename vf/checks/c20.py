"""C20 - extensions are inert unless enabled and needed; front matter only shifts lines (DESIGN 3, C20)."""
import itertools
import re
import sys

from .. import parser, spaces, sweep
from .c05 import expand as _expand

PROP = "C20"
CHUNK = 150
RULE = (
    "all 64 subsets of the six extensions x documents without trigger syntax (block space) and with every extension's "
    "trigger syntax in valid and near-miss form; non-trivial = document containing the trigger syntax of at least one extension"
)
STATES_MEANING = (
    "distinct abstract parser states observed at line boundaries under any extension subset; transitions = line feeds under all 64 subsets"
)

EXT = parser.EXT_IDS
SUBSETS = [tuple(e for e, b in zip(EXT, bits) if b) for bits in itertools.product([False, True], repeat=6)]

SIGMA_EXT = [
    "",
    "a",
    "---",
    "a: b",
    "b: [c",
    "---  ",
    "...",
    "~~a~~",
    "~a~",
    "a ~~b",
    "- [ ] a",
    "- [x] a",
    "- [y] a",
    "[ ] a",
    "1. [X] a",
    "www.a.b",
    "http://a.b c",
    "a@b.c",
    "xmpp:a@b.c",
    "mailto:a@b.c",
    "(xmpp:a@b.c/d)",
    "<http://a>",
    "<script>",
    "<title>x</title>",
    "a <xmp> b",
    "<b>",
    "<!-- pyml disable-next-line md001-->",
    "<!--- pyml disable-num-lines 2 md001-->",
    "<!-- pyml -->",
    "# a",
    "> a",
    "- a",
    "```",
]


def needed(text):
    """extensions whose trigger syntax occurs in the document (syntactic over-approximation)"""
    n = set()
    first = text.split("\n", 1)[0]
    if first.rstrip(" \t\x0b\x0c\r") == "---":
        n.add("front-matter")
    if "~" in text:
        n.add("markdown-strikethrough")
    if re.search(r"\[[ xX]\]", text):
        n.add("markdown-task-list-items")
    if re.search(r"www\.|https?://|ftp://|@|mailto:|xmpp:", text):
        n.add("markdown-extended-autolinks")
    if "<" in text:
        n.add("markdown-disallow-raw-html")
    if "<!--" in text and "pyml" in text:
        n.add("linter-pragmas")
    return n


def space(tier):
    if tier == "thorough":
        parts = [spaces.block_space("core", 3), spaces.ProductSpace("B(ext,3)", SIGMA_EXT, 3), spaces.block_space("wide", 2)]
    else:
        parts = [spaces.block_space("core", 2), spaces.ProductSpace("B(ext,2)", SIGMA_EXT, 2), spaces.block_space("wide", 1)]
    parts.append(spaces.ListSpace("frontmatter", _fm_docs()))
    # inline constructs in the contexts extensions hook into (paragraph, heading, list item, heading in a list item)
    parts += spaces.inline_wide_space(3 if tier == "thorough" else 2, (0, 2, 3, 5))
    return spaces.UnionSpace(f"ext-{tier}", parts)


def _fm_docs():
    docs = []
    for body in (["a: b"], ["a: b", "c: d"], ["a"], [""], ["- x"], ["a: b", ""], ["a: [b"], []):
        for end in ("---", "--- ", "...", "a", None):
            for rest in (["# t"], [""], ["# t", "", "- a", "  b"], ["<!-- pyml disable-next-line md001-->", "## x"], ["a", "==="], []):
                lines = ["---"] + body + ([end] if end is not None else []) + rest
                docs.append(tuple(lines))
                docs.append(tuple(lines) + ("",))
    return docs


_POS = re.compile(r"\((\d+),(\d+)\)")


def _shift(tok, m):
    s = _POS.sub(lambda mo: f"({int(mo.group(1)) + m},{mo.group(2)})", tok)
    if s.startswith("[pragma:"):
        # pragma token carries its line numbers as keys: [pragma:LINE:text;LINE:text]
        s = re.sub(r"(\[pragma:|;)(\d+):", lambda mo: f"{mo.group(1)}{int(mo.group(2)) + m}:", s)
    return s


def _disabled_invariant(S, tokens, text):
    """With an extension disabled nothing of it may show in the stream (plain CommonMark):
    returns the id of a disabled extension that left a trace, or None."""
    lines = text.split("\n")
    for t in tokens:
        name = t.token_name
        if name == "front-matter" and "front-matter" not in S:
            return "front-matter"
        if name == "pragma" and "linter-pragmas" not in S:
            return "linter-pragmas"
        if name == "task-list" and "markdown-task-list-items" not in S:
            return "markdown-task-list-items"
        if name == "emphasis" and getattr(t, "emphasis_character", "") == "~" and "markdown-strikethrough" not in S:
            return "markdown-strikethrough"
        if name in ("uri-autolink", "email-autolink") and "markdown-extended-autolinks" not in S:
            ln, col = t.line_number, t.column_number
            if 1 <= ln <= len(lines):
                raw, ex = lines[ln - 1], _expand(lines[ln - 1])
                at_raw = col - 1 < len(raw) and raw[col - 1] == "<"
                at_exp = col - 1 < len(ex) and ex[col - 1] == "<"
                if not (at_raw or at_exp) and "<" not in raw:
                    return "markdown-extended-autolinks"
        if name in ("raw-html", "html-block", "text") and "markdown-disallow-raw-html" not in S:
            body = getattr(t, "raw_tag", None) or getattr(t, "token_text", "") or ""
            if name != "text" and "&lt;" in body and "&lt;" not in text:
                return "markdown-disallow-raw-html"
    return None


def _ser(text, S, states, eos=True, trace=None):
    lines = text.split("\n")
    st, v, w, sts = parser.parse_with_states(lines, S, eos=eos)
    states.update(s for s in sts if s is not None)
    if st != "ok":
        return None
    if trace is not None:
        bad = _disabled_invariant(S, v, text)
        if bad is not None:
            trace.append((S, bad))
    return [str(t) for t in v]


def evaluate(text):
    res = {"fail": None}
    states = set()
    need = needed(text)
    out = {}
    trace = []
    for S in SUBSETS:
        out[S] = _ser(text, S, states, trace=trace)
    res["feeds"] = len(SUBSETS) * (text.count("\n") + 1)
    res["states"] = states
    res["nontrivial"] = bool(need)
    fail = None
    if trace:
        S, bad = trace[0]
        fail = ("disabled-extension-active:" + bad, {"enabled": list(S), "tokens": out[S]})
    for S in [] if fail else sorted(SUBSETS, key=lambda s: (len(s), s)):
        base = tuple(e for e in S if e in need)
        if out[S] != out[base]:
            culprits = [e for e in S if e not in need]
            fail = (
                "not-inert:" + "+".join(culprits),
                {"enabled": list(S), "trigger_syntax_present_for": sorted(need), "tokens": out[S], "tokens_with_only_needed": out[base]},
            )
            break
    if fail is None:
        # front matter: token + exactly the parse of the remaining lines, shifted
        for S in SUBSETS:
            if "front-matter" not in S or not out[S]:
                continue
            first = out[S][0]
            lines = text.split("\n")
            if first.startswith("[front-matter("):
                # length of the block: up to and including the closing '---' line
                m = None
                for i in range(1, len(lines)):
                    if lines[i].rstrip(" \t\x0b\x0c\r") == "---":
                        m = i + 1
                        break
                if m is None:
                    fail = ("front-matter-without-closing-line", {"tokens": out[S]})
                    break
                rest = "\n".join(lines[m:])
                if m == len(lines):
                    exp = [f"[end-of-stream({m + 1},0)]"] if False else None
                    exp_tokens = None
                else:
                    rest_ser = _ser(rest, S, states)
                    exp_tokens = None if rest_ser is None else [_shift(t, m) for t in rest_ser]
                if exp_tokens is not None and out[S][1:] != exp_tokens:
                    fail = ("front-matter-not-a-pure-shift", {"enabled": list(S), "block_lines": m, "tokens": out[S][1:], "expected": exp_tokens})
                    break
            else:
                # a syntactically simple valid block must be recognised
                if lines[0].rstrip(" \t") == "---":
                    m = None
                    for i in range(1, len(lines)):
                        if lines[i].rstrip(" \t") == "---":
                            m = i
                            break
                    if m is not None and m > 1 and all(re.fullmatch(r"[a-z]+: [a-z]+", l) for l in lines[1:m]):
                        fail = ("valid-front-matter-not-recognised", {"enabled": list(S), "tokens": out[S]})
                        break
    res["fail"] = fail
    res["outcome"] = fail[0] if fail else "inert;needed=" + ",".join(sorted(need))
    return res


def classify(key, sig, detail):
    if sig.startswith("disabled-extension-active"):
        return sig, f"extension {sig.split(':', 1)[1]} is disabled but its constructs appear in the token stream"
    if sig.startswith("not-inert"):
        return sig, f"enabling {sig.split(':', 1)[1]} changes the parse of a document that contains none of its syntax"
    return sig, f"front-matter contract broken: {sig}"


def run(tier, return_info=False):
    rc, info = sweep.run_doc_check(sys.modules[__name__], tier)
    return info if return_info else rc


def replay(path):
    return sweep.replay_doc(sys.modules[__name__], path)
