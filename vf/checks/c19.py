"""C19 - file discovery selects exactly the documented set, once each, in sorted order (DESIGN 3, C19)."""
import fnmatch
import itertools
import json
import os
import sys

from .. import app, spaces, sweep

PROP = "C19"
CHUNK = 500
RULE = (
    "all subsets of two small entry sets (80 directory trees) x all argument lists of length 1..L over 14 spellings x --recurse x "
    "--alternate-extensions, through ApplicationFileScanner.determine_files_to_scan and through `scan --list-files` (thorough: also scan and fix); "
    "non-trivial = case in which the model selects at least two files or reports an error"
)
STATES_MEANING = "distinct (selected file set, error flag) outcomes of the selection model; transitions = selections executed on the real code (direct call + CLI)"
ASSUMPTIONS = [
    "selection model transcribed from newdocs/src/user-guide.md (Basic Scanning, Advanced Scanning): glob via '*'/'?', directories non-recursive unless --recurse, "
    "eligibility = regular file whose name ends with one of the extensions (case-sensitive); messages on stderr are not compared, only the selected set, order, uniqueness and the result category",
]

E1 = ["a.md", "b.MD", "c.txt", "d/e.md", "d/f.txt", "d/g/h.md"]
E2 = ["x*.md", "q?.md", "xy.md", "e/"]
ARGS = ["a.md", "./a.md", "c.txt", "d", "d/", "./d", "d/e.md", "*.md", "d/*", "*", "n*.md", "nope.md", "d/g", "x*.md", "**/*.md", "d/**"]
AE = [None, ".txt", ".md,.txt"]


def _subsets(es):
    out = []
    for r in range(len(es) + 1):
        for c in itertools.combinations(es, r):
            out.append(tuple(c))
    return out


TREES = _subsets(E1) + [t for t in _subsets(E2) if t]


class DiscoverySpace(spaces.Space):
    SINGLE_DELETION = False

    def __init__(self, maxargs):
        self.name = f"discovery(args<={maxargs})"
        self.arglists = []
        for n in range(1, maxargs + 1):
            self.arglists += list(itertools.product(ARGS, repeat=n))
        self.opts = [(r, ae) for r in (False, True) for ae in AE]
        self._n = len(TREES) * len(self.arglists) * len(self.opts)

    def __len__(self):
        return self._n

    def case(self, i):
        t, rest = divmod(i, len(self.arglists) * len(self.opts))
        a, o = divmod(rest, len(self.opts))
        return (self.name, (TREES[t], self.arglists[a], self.opts[o][0], self.opts[o][1]))

    def text(self, case):
        return self.key(case)

    def key(self, case):
        tree, args, rec, ae = case[1]
        return json.dumps({"tree": list(tree), "args": list(args), "recurse": rec, "ae": ae}, sort_keys=True)

    def payload(self, case):
        return case[1]

    def payload_from_key(self, key):
        d = json.loads(key)
        return (tuple(d["tree"]), tuple(d["args"]), d["recurse"], d["ae"])

    def subcases(self, case):
        tree, args, rec, ae = case[1]
        # delete any non-empty proper combination of tree entries and arguments (at least one argument stays)
        items = [("t", i) for i in range(len(tree))] + [("a", i) for i in range(len(args))]
        for r in range(1, len(items)):
            for drop in itertools.combinations(items, r):
                dt = {i for k, i in drop if k == "t"}
                da = {i for k, i in drop if k == "a"}
                if len(da) == len(args):
                    continue
                yield (
                    self.name,
                    (tuple(e for i, e in enumerate(tree) if i not in dt), tuple(a for i, a in enumerate(args) if i not in da), rec, ae),
                )

    def describe(self):
        return {"name": self.name, "trees": len(TREES), "argument_lists": len(self.arglists), "options": len(self.opts), "size": self._n}


_TIER = ["quick"]


def space(tier):
    _TIER[0] = tier
    return DiscoverySpace(3 if tier == "thorough" else 2)


# ------------------------------------------------------------------ reference model


def _tree_index(tree):
    """files: set of relative file paths; dirs: set of relative dir paths ('' = root)"""
    files, dirs = set(), {""}
    for e in tree:
        if e.endswith("/"):
            dirs.add(e.rstrip("/"))
            continue
        files.add(e)
        parts = e.split("/")[:-1]
        for i in range(1, len(parts) + 1):
            dirs.add("/".join(parts[:i]))
    return files, dirs


def _norm(p):
    p = os.path.normpath(p)
    return "" if p == "." else p


def model(tree, args, recurse, ae):
    """Returns ('error', reason) or ('ok', sorted list of selected files (normalised relative paths))."""
    files, dirs = _tree_index(tree)
    exts = (ae or ".md").split(",")

    def eligible(f):
        return f in files and any(f.endswith(x) for x in exts)

    def in_dir(d, deep):
        out = set()
        for f in files:
            parent = "/".join(f.split("/")[:-1])
            if parent == d or (deep and (d == "" or parent.startswith(d + "/"))):
                if eligible(f):
                    out.add(f)
        return out

    selected = set()
    for a in args:
        if "*" in a or "?" in a:
            # component-wise, non-recursive expansion (the guide: glob.glob without the recursive
            # flag, so '**' is just '*'); names starting with '.' are not matched by wildcards
            comps = [c for c in a.split("/") if c not in ("", ".")]
            cur = [""]
            for i, comp in enumerate(comps):
                nxt = []
                for d in cur:
                    children = set()
                    for f in files:
                        if "/".join(f.split("/")[:-1]) == d:
                            children.add(f.split("/")[-1])
                    for x in dirs:
                        if x and "/".join(x.split("/")[:-1]) == d:
                            children.add(x.split("/")[-1])
                    if "*" in comp or "?" in comp:
                        names = [n for n in children if not n.startswith(".") and fnmatch.fnmatchcase(n, comp.replace("**", "*"))]
                    else:
                        names = [comp] if comp in children else []
                    for n in names:
                        p = (d + "/" + n) if d else n
                        if i < len(comps) - 1:
                            if p in dirs:
                                nxt.append(p)
                        else:
                            nxt.append(p)
                cur = nxt
            if not cur:
                return ("error", f"glob {a!r} matches nothing")
            for p in cur:
                if p in dirs:
                    selected |= in_dir(p, recurse)
                elif eligible(p):
                    selected.add(p)
            continue
        p = _norm(a)
        if p in dirs:
            selected |= in_dir(p, recurse)
        elif p in files:
            if not eligible(p):
                return ("error", f"named file {a!r} is not eligible")
            selected.add(p)
        else:
            return ("error", f"path {a!r} does not exist")
    return ("ok", sorted(selected))


# ------------------------------------------------------------------ implementation under test

_trees = {}


def _sandbox(tree):
    sb = _trees.get(tree)
    if sb is None:
        files = {}
        for e in tree:
            files[e] = None if e.endswith("/") else "a\n"
        sb = app.Sandbox(files)
        _trees[tree] = sb
    return sb


def _direct(sb, args, recurse, ae):
    from pymarkdown.application_file_scanner import ApplicationFileScanner

    out, err = [], []
    old = os.getcwd()
    os.chdir(sb.cwd)
    try:
        files, did_err, _only = ApplicationFileScanner.determine_files_to_scan(
            list(args), recurse, ae or ".md", False, out.append, err.append
        )
    finally:
        os.chdir(old)
    return files, did_err


def _judge(kind, exp, listed, errored, rc=None):
    """compare one observation with the model; returns fail or None"""
    if exp[0] == "error":
        if not errored:
            return (f"{kind}:error-not-reported", {"model": exp[1], "selected": listed})
        return None
    want = exp[1]
    if errored and want:
        return (f"{kind}:spurious-error", {"model_selects": want, "got": listed})
    if not want:
        # nothing selected: must end in the no-files result (the CLI form checks the exit code)
        if kind == "cli" and rc == 0:
            return ("cli:empty-selection-exits-0", {"stdout": listed})
        return None
    real = [_norm(p) for p in listed]
    if len(set(real)) != len(real):
        return (f"{kind}:file-listed-twice", {"listed": listed})
    if set(real) != set(want):
        return (f"{kind}:wrong-set", {"missing": sorted(set(want) - set(real)), "extra": sorted(set(real) - set(want))})
    if list(listed) != sorted(listed):
        return (f"{kind}:not-sorted", {"listed": listed})
    return None


def evaluate(payload):
    tree, args, recurse, ae = payload
    tree, args = tuple(tree), tuple(args)
    exp = model(tree, args, recurse, ae)
    sb = _sandbox(tree)
    res = {"fail": None, "feeds": 2}
    res["states"] = [(exp[0], tuple(exp[1]) if exp[0] == "ok" else "error")]
    res["nontrivial"] = exp[0] == "error" or len(exp[1]) >= 2
    files, did_err = _direct(sb, args, recurse, ae)
    fail = _judge("direct", exp, files, did_err)
    if fail is None:
        cli = ["scan", "-l"] + (["-r"] if recurse else []) + (["-ae", ae] if ae else []) + list(args)
        r = app.run_main(cli, sb)
        listed = [l for l in r.out.splitlines() if l.strip()]
        errored = r.rc != 0
        fail = _judge("cli", exp, listed, errored, r.rc)
        if fail is None and exp[0] == "error" and listed:
            fail = ("cli:files-listed-despite-error", {"listed": listed})
        if fail is None and (_TIER[0] == "thorough" or len(args) == 1):
            # the files actually processed by scan / fix are the model's set, once each, in sorted order
            for mode in ("scan", "fix"):
                cli = [mode] + (["-r"] if recurse else []) + (["-ae", ae] if ae else []) + list(args)
                sb2 = app.Sandbox({e: (None if e.endswith("/") else "#  a\n") for e in tree}) if mode == "fix" else sb
                try:
                    r = app.run_main(cli, sb2)
                finally:
                    if mode == "fix":
                        sb2.close()
                res["feeds"] += 1
                if mode == "scan":
                    seen = []
                    for l in r.out.splitlines():
                        nm = l.split(":", 1)[0]
                        if nm and (not seen or seen[-1] != nm):
                            seen.append(nm)
                else:
                    seen = [l[len("Fixed: "):] for l in r.out.splitlines() if l.startswith("Fixed: ")]
                if exp[0] == "error":
                    if seen:
                        fail = (f"{mode}:files-processed-despite-error", {"processed": seen})
                else:
                    f2 = _judge(mode, exp, seen, False, None) if exp[1] else None
                    if f2 is not None:
                        fail = f2
                if fail:
                    break
    res["fail"] = fail
    res["outcome"] = fail[0] if fail else (exp[0] + ":" + str(len(exp[1]) if exp[0] == "ok" else exp[1].split(" ")[0]))
    return res


def classify(key, sig, detail):
    table = {
        "file-listed-twice": "a file reached through two spellings (a.md and ./a.md, d and ./d) is selected and processed twice",
        "empty-selection-exits-0": "arguments that select no file at all (empty directory, glob matching only ineligible files) end with exit 0 instead of the no-files-to-scan result",
    }
    k = sig.split(":", 1)[1]
    return sig, table.get(k, f"file selection differs from the documented rules: {k}") + f" ({sig.split(':')[0]} entry)"


def run(tier, return_info=False):
    rc, info = sweep.run_doc_check(sys.modules[__name__], tier)
    for sb in _trees.values():
        sb.close()
    return info if return_info else rc


def replay(path):
    return sweep.replay_doc(sys.modules[__name__], path)
