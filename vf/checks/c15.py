"""C15 - failures are contained: errors are reported, never success, nothing is damaged (DESIGN 3, C15).
Deviation-bounded exploration: bound 0 (faulter plugin present but silent), bound 1 (one fault at every
callback invocation / parser invocation / undecodable file position / crash point of the write-back),
thorough: bound 2 (two faulty files)."""
import itertools
import json
import os
import sys

from .. import app, common, crashpoints, inject, pool, reclog, spaces, sweep, tlcgraph

PROP = "C15"
CHUNK = 60
LEVEL_NOTE = "fault_enumeration + crash points inside a model-checking explorer"
RULE = (
    "3-file runs (contents from clean / failing / fixable) x {scan, fix} x continue-on-error x both schemes; "
    "plugin exception at every single callback invocation of a counting plugin (fix-capable at level 0 / above every built-in, or not fix-capable), "
    "parser exception at every parser invocation, undecodable file at every position, process death at every intercepted I/O step of the write-back; "
    "non-trivial = execution in which the injected fault was actually raised (or a crash snapshot taken while a file was being written)"
)
STATES_MEANING = "distinct disk images observed at crash points plus distinct (fault kind, position) deliveries; transitions = fault deliveries + intercepted I/O steps"
ASSUMPTIONS = [
    "a crash is modelled as process death at an intercepted I/O step: the disk image is snapshotted at the step (page cache = disk; torn sector writes are not modelled)",
    "'fully fixed' for a file is what fixing that file alone, without faults, produces",
]

CONTENT = {"clean": "# a\n", "failing": "# a\n# b\n", "fixable": "#  a  \n\n* b\n+ c\n", "pc": "# a\n\nCRASHME\n", "tc": "# a\n\nPARSECRASH\n"}
KINDS = ["clean", "failing", "fixable"]
FIXCFG = {"nofix": (False, 0), "fix0": (True, 0), "fix9": (True, 9)}
FAULTER = os.path.join(common.PLUGIN_DIR, "faulter_plugin.py")
SCHEMES = ["default", "minimal"]


def _names(contents):
    return [f"{'abc'[i]}_{k}.md" for i, k in enumerate(contents)]


def _files(contents):
    return {n: CONTENT[k] for n, k in zip(_names(contents), contents)}


def _argv(mode, coe, scheme, names, extra=()):
    return list(extra) + ["--return-code-scheme", scheme] + (["--continue-on-error"] if coe else []) + [mode] + list(names)


_ref_cache = {}


def fully_fixed(kind):
    if kind not in _ref_cache:
        with app.Sandbox({"x.md": CONTENT[kind]}) as sb:
            app.run_main(["fix", "x.md"], sb)
            _ref_cache[kind] = sb.read("x.md")
    return _ref_cache[kind]


def _run(contents, mode, coe, scheme, fixcfg=None, fault_at=None, parse_fault_at=None, undecodable=None, drop=None):
    """one execution; returns dict(rc,out,err,bytes{name:..},tmp,log,fired,parse_calls)"""
    inject.install_parser_fault()
    files = _files(contents)
    names = _names(contents)
    if undecodable is not None:
        files[names[undecodable]] = b"\xff\xfe# a\n"
    if drop is not None:
        del files[names[drop]]
        names = [n for i, n in enumerate(names) if i != drop]
    extra = []
    if fixcfg is not None:
        fx, lvl = FIXCFG[fixcfg]
        reclog.reset(fix=fx, level=lvl, fault_at=fault_at)
        extra = ["--add-plugin", FAULTER]
    inject.reset_parse_counter()
    inject.set_parse_fault_at(parse_fault_at)
    try:
        with app.Sandbox(files) as sb:
            r = app.run_main(_argv(mode, coe, scheme, names, extra), sb)
            out = {
                "rc": r.rc,
                "out": r.out,
                "err": r.err,
                "bytes": {n: sb.read(n) for n in names},
                "tmp": sb.tmp_entries(),
                "log": list(reclog.LOG),
                "fired": reclog.CONFIG.get("fired"),
                "count": reclog.CONFIG.get("count", 0),
                "parse_calls": inject.parse_calls(),
            }
    finally:
        inject.set_parse_fault_at(None)
        reclog.reset()
    return out


def _per_file_lines(text, name):
    return [l for l in text.splitlines() if l.startswith(name + ":") or l == f"Fixed: {name}"]


class FaultSpace(spaces.Space):
    SINGLE_DELETION = False

    def __init__(self, tier):
        self.name = f"faults-{tier}"
        cases = []
        combos = list(itertools.product(KINDS, repeat=3))
        if tier == "quick":
            # every kind at every position, every adjacent pair of kinds (9 of the 27 combinations)
            combos = [("clean", "failing", "fixable"), ("fixable", "clean", "failing"), ("failing", "fixable", "clean"),
                      ("fixable", "fixable", "fixable"), ("clean", "clean", "clean"), ("failing", "failing", "failing"),
                      ("fixable", "failing", "clean"), ("clean", "fixable", "fixable"), ("failing", "clean", "fixable")]
        self.combos = combos
        # dry runs to learn the number of deliveries
        tasks = []
        for c in combos:
            for mode in ("scan", "fix"):
                for fc in FIXCFG:
                    if mode == "scan" and fc != "nofix":
                        continue
                    tasks.append((c, mode, fc))
        counts = pool.pmap(_dry, tasks)
        for (c, mode, fc), (n, k) in zip(tasks, counts):
            for coe in (False, True):
                for scheme in SCHEMES:
                    cases.append(("plugin", c, mode, coe, scheme, fc, 0))
                    for i in range(1, n + 1):
                        cases.append(("plugin", c, mode, coe, scheme, fc, i))
                    if fc == "nofix":
                        for i in range(1, k + 1):
                            cases.append(("parser", c, mode, coe, scheme, None, i))
                        for pos in range(3):
                            cases.append(("undecodable", c, mode, coe, scheme, None, pos))
        # deviation bound 2: two faulty files in one run (marker-driven plugin / parser faults)
        for c in itertools.product(("clean", "fixable", "pc", "tc"), repeat=3):
            if sum(1 for x in c if x in ("pc", "tc")) >= 2:
                for mode in ("scan", "fix"):
                    for scheme in SCHEMES:
                        cases.append(("double", c, mode, True, scheme, None, 0))
        for kind in ("fixable",):
            for text in (CONTENT["fixable"], "#  a\n", "a  \n", "* a\n+ b\n\n\n\nc\tc\n", "# a\n\n### b", "\ta\n"):
                cases.append(("crash", (text,), "fix", False, "default", None, 0))
        self.cases = cases

    def __len__(self):
        return len(self.cases)

    def case(self, i):
        return (self.name, self.cases[i])

    def key(self, case):
        return json.dumps(case[1])

    def text(self, case):
        return self.key(case)

    def payload(self, case):
        return case[1]

    def payload_from_key(self, key):
        k = json.loads(key)
        return (k[0], tuple(k[1]), k[2], k[3], k[4], k[5], k[6])

    def subcases(self, case):
        return iter(())

    def describe(self):
        import collections

        return {"name": self.name, "size": len(self.cases), "by_kind": dict(collections.Counter(c[0] for c in self.cases)), "content_combinations": len(self.combos)}


def _dry(task):
    c, mode, fc = task
    o = _run(c, mode, True, "default", fixcfg=fc)
    return o["count"], o["parse_calls"]


def space(tier):
    return FaultSpace(tier)


def _attribute(log, k):
    """files the k-th delivery may belong to.  starting_new_file carries no context: such an event
    belongs either to the file of the next event or (a trailing, stuttering start) to the previous one"""
    ev = log[k - 1]
    if ev[1] is not None:
        return [ev[1]]
    out = []
    for e in log[k:]:
        if e[1] is not None:
            out.append(e[1])
            break
    for e in reversed(log[: k - 1]):
        if e[1] is not None:
            out.append(e[1])
            break
    return out


def evaluate(payload):
    kind, contents, mode, coe, scheme, fc, k = payload
    res = {"fail": None, "feeds": 1}
    if kind == "crash":
        return _crash(contents[0], res)
    if kind == "double":
        return _double(contents, mode, scheme, res)
    failing_files = []
    names = _names(contents)
    ok_bytes = {n: {CONTENT[c].encode(), fully_fixed(c)} for n, c in zip(names, contents)}
    failing_file = None
    if kind == "plugin":
        o = _run(contents, mode, coe, scheme, fixcfg=fc, fault_at=k or None)
        fired = o["fired"] is not None
        if k:
            dry = _run(contents, mode, True, scheme, fixcfg=fc)
            failing_files = _attribute(dry["log"], k) if k <= len(dry["log"]) else []
            failing_file = failing_files[0] if failing_files else None
            res["feeds"] += 1
    elif kind == "parser":
        o = _run(contents, mode, coe, scheme, parse_fault_at=k)
        fired = o["parse_calls"] >= k
        # which file: parser calls happen file by file in sorted order; learn it from a dry run per prefix
        failing_file = _parser_file(contents, mode, k)
    else:
        o = _run(contents, mode, coe, scheme, undecodable=k)
        fired = True
        failing_file = names[k]
        ok_bytes[names[k]] = {b"\xff\xfe# a\n"}
    res["nontrivial"] = fired and (kind != "plugin" or k > 0)
    res["states"] = [(kind, mode, fc, "fired" if fired else "silent")]
    fail = None
    if o["rc"] in ("timeout", "exception"):
        fail = (f"{kind}:application-{o['rc']}", o["err"][-300:])
    elif kind == "plugin" and k == 0:
        # deviation bound 0: the extra plugin must change nothing
        for n, c in zip(names, contents):
            want = CONTENT[c].encode() if mode == "scan" else fully_fixed(c)
            if o["bytes"][n] != want:
                fail = (f"bound0:{mode}:file-content-wrong-with-extra-plugin:{fc}", {"file": n, "bytes": o["bytes"][n].decode("utf-8", "replace"), "expected": want.decode()})
                break
        if fail is None and o["tmp"]:
            fail = (f"bound0:{mode}:temp-files-left", o["tmp"])
        if fail is None and o["err"].strip():
            fail = (f"bound0:{mode}:error-without-fault", o["err"][-300:])
    elif fired:
        # (i) the error is reported, names the file, and the run ends with the system-error result
        if o["rc"] != 1:
            fail = (f"{kind}:{mode}:error-masked-exit-{o['rc']}", {"stderr": o["err"][-300:], "stdout": o["out"][-200:], "failing_file": failing_file})
        elif failing_file and not any(os.path.basename(f) in o["err"] for f in (failing_files or [failing_file])):
            fail = (f"{kind}:{mode}:error-does-not-name-the-file", {"stderr": o["err"][-400:], "failing_file": failing_file})
        # (iii) nothing damaged, no temp files
        if fail is None:
            for n in names:
                if o["bytes"][n] not in ok_bytes[n]:
                    fail = (f"{kind}:{mode}:file-neither-original-nor-fully-fixed", {"file": n, "bytes": o["bytes"][n].decode("utf-8", "replace")})
                    break
        if fail is None and o["tmp"]:
            fail = (f"{kind}:{mode}:temp-files-left", o["tmp"])
        # (ii) continue-on-error: the other files are processed as if the failing file were absent
        if fail is None and coe and kind in ("plugin", "parser") and failing_file:
            named = [f for f in (failing_files or [failing_file]) if os.path.basename(f) in o["err"]]
            failing_file = named[0] if named else failing_file
            idx = names.index(os.path.basename(failing_file)) if os.path.basename(failing_file) in names else None
            if idx is not None:
                ref = _run(contents, mode, coe, scheme, fixcfg=fc if kind == "plugin" else None, drop=idx)
                res["feeds"] += 1
                for n in names:
                    if n == names[idx]:
                        continue
                    if _per_file_lines(o["out"], n) != _per_file_lines(ref["out"], n) or o["bytes"][n] != ref["bytes"][n]:
                        fail = (
                            f"{kind}:{mode}:other-file-affected-by-the-failure",
                            {"file": n, "with_failure": _per_file_lines(o["out"], n), "failing_file_absent": _per_file_lines(ref["out"], n),
                             "bytes_equal": o["bytes"][n] == ref["bytes"][n]},
                        )
                        break
    res["fail"] = fail
    res["outcome"] = fail[0] if fail else f"{kind}:{mode}:{'contained' if fired else 'no-fault'}"
    return res


_pf_cache = {}


def _parser_file(contents, mode, k):
    key = (contents, mode)
    if key not in _pf_cache:
        names = _names(contents)
        # count parser calls per file by running each file alone
        per = []
        for i in range(3):
            inject.install_parser_fault()
            inject.reset_parse_counter()
            with app.Sandbox({names[i]: CONTENT[contents[i]]}) as sb:
                app.run_main([mode, names[i]], sb)
            per.append(inject.parse_calls())
        _pf_cache[key] = per
    per = _pf_cache[key]
    names = _names(contents)
    acc = 0
    for i, n in enumerate(per):
        acc += n
        if k <= acc:
            return names[i]
    return names[-1]


def _double(contents, mode, scheme, res):
    """two faulty files, --continue-on-error: both reported, exit = system error, the rest unaffected"""
    inject.install_parser_fault()
    names = _names(contents)
    files = {n: CONTENT[c] for n, c in zip(names, contents)}
    extra = ["--add-plugin", inject.CRASH_PLUGIN]
    with app.Sandbox(files) as sb:
        r = app.run_main(_argv(mode, True, scheme, names, extra), sb)
        by = {n: sb.read(n) for n in names}
        tmp = sb.tmp_entries()
    good = [n for n, c in zip(names, contents) if c in ("clean", "fixable")]
    bad = [n for n, c in zip(names, contents) if c in ("pc", "tc")]
    with app.Sandbox({n: files[n] for n in good}) as sb:
        ref = app.run_main(_argv(mode, True, scheme, good, extra), sb) if good else None
        refby = {n: sb.read(n) for n in good}
    res["feeds"] = 2
    res["nontrivial"] = True
    res["states"] = [("double", mode, tuple(contents))]
    fail = None
    if r.rc != 1:
        fail = (f"double:{mode}:error-masked-exit-{r.rc}", {"stderr": r.err[-300:]})
    else:
        for n in bad:
            if n not in r.err:
                fail = (f"double:{mode}:failing-file-not-named", {"file": n, "stderr": r.err[-400:]})
                break
            if by[n] != files[n].encode():
                fail = (f"double:{mode}:failing-file-modified", {"file": n})
                break
    if fail is None:
        for n in good:
            if _per_file_lines(r.out, n) != _per_file_lines(ref.out, n) or by[n] != refby[n]:
                fail = (f"double:{mode}:other-file-affected-by-the-failures", {"file": n, "with": _per_file_lines(r.out, n), "without": _per_file_lines(ref.out, n)})
                break
    if fail is None and tmp:
        fail = (f"double:{mode}:temp-files-left", tmp)
    res["fail"] = fail
    res["outcome"] = fail[0] if fail else f"double:{mode}:contained"
    return res


# ------------------------------------------------------------------ crash points


def _crash(text, res):
    orig = text.encode("utf-8")
    with app.Sandbox({"t.md": text}) as sb:
        with crashpoints.Interposer(sb) as ip:
            r = app.run_main(["fix", "t.md"], sb)
        final = sb.read("t.md")
        steps = ip.log
    # contents the file legitimately has between passes: the original, and the content right after
    # each completed write-back step (copy finished / replace done)
    accepted = {orig, final}
    for what, snap in steps:
        if what.startswith(("after replace", "after rename", "close t.md")):
            if "w/t.md" in snap:
                accepted.add(snap["w/t.md"])
    fail = None
    bad = []
    images = set()
    for j, (what, snap) in enumerate(steps):
        cur = snap.get("w/t.md")
        images.add(common.sha(repr(sorted(snap.items())))[:16])
        if cur is None or cur not in accepted:
            bad.append((j, what, None if cur is None else cur.decode("utf-8", "replace")))
    # conformance with the TLA+ model of the write-back (models/WriteBack.tla): every write-back
    # episode of this history must be a path of the state graph TLC dumps for the atomic protocol
    conf = _conformance(steps, orig)
    res["feeds"] = len(steps)
    res["states"] = list(images)
    res["nontrivial"] = any(w.startswith(("opened t.md", "before replace", "before rename")) for w, _s in steps)
    res["count"] = {"crash_points": len(steps), "write_back_episodes_validated_against_tla_model": conf["validated"], "tla_model_unavailable": conf["unavailable"]}
    if r.rc in ("timeout", "exception") or r.err.strip():
        fail = ("crash:fix-run-error", r.err[-300:])
    elif bad:
        j, what, cur = bad[0]
        fail = (
            "crash:file-truncated-or-partial-at-a-crash-point",
            {"crash_points": len(steps), "bad_points": len(bad), "first_bad_step": j, "step": what, "file_content_then": cur, "original": text, "fixed": final.decode("utf-8", "replace")},
        )
    elif conf["error"]:
        fail = ("crash:write-back-history-is-not-a-behaviour-of-the-atomic-protocol-model", conf["error"])
    elif sb is not None and [e for e in steps[-1][1] if e.startswith("t/")]:
        fail = ("crash:temp-files-left-after-completion", [e for e in steps[-1][1] if e.startswith("t/")])
    res["fail"] = fail
    res["outcome"] = fail[0] if fail else f"crash:{len(steps)}-points-ok"
    return res


def _conformance(steps, orig):
    """split the I/O history into write-back episodes and validate each against the model"""
    out = {"validated": 0, "unavailable": 0, "error": None}
    episodes = []
    cur = None
    before = orig
    for what, snap in steps:
        tgt = snap.get("w/t.md")
        if what.startswith("before open(.pymarkdown-"):
            cur = {"old": tgt, "writes": 0, "trace": [("old", -1, "start")], "closed": False}
        elif cur is not None and what.startswith("opened .pymarkdown-"):
            cur["trace"].append(("old" if tgt == cur["old"] else "other", 0, "copying"))
        elif cur is not None and what.startswith("write .pymarkdown-"):
            cur["writes"] += 1
            cur["trace"].append(("old" if tgt == cur["old"] else "other", cur["writes"], "copying"))
        elif cur is not None and what.startswith("close .pymarkdown-"):
            cur["closed"] = True
            cur["trace"].append(("old" if tgt == cur["old"] else "other", cur["writes"], "staged"))
        elif cur is not None and what.startswith("after replace(.pymarkdown-"):
            cur["new"] = tgt
            cur["trace"].append(("new", -1, "done"))
            episodes.append(cur)
            cur = None
        elif what.startswith("opened t.md w"):
            out["error"] = "the user's file is opened for writing directly: " + what
            return out
    if cur is not None:
        out["error"] = "a write-back episode does not end with the rename over the target"
        return out
    for ep in episodes:
        msg = tlcgraph.validate(ep["trace"], ep["writes"])
        if msg == "tlc-unavailable":
            out["unavailable"] += 1
        elif msg:
            out["error"] = msg
            return out
        else:
            out["validated"] += 1
    return out


def classify(key, sig, detail):
    table = {
        "crash:file-truncated-or-partial-at-a-crash-point": "the write-back of a fixed file truncates the user's file before the new content is safe: a process death during the copy leaves it empty or partial",
        "undecodable:scan:error-does-not-name-the-file": "an undecodable file is reported as a configuration error that does not name the file",
        "undecodable:fix:error-does-not-name-the-file": "an undecodable file is reported as a configuration error that does not name the file",
    }
    return sig, table.get(sig, f"failure containment broken: {sig}")


def run(tier, return_info=False):
    rc, info = sweep.run_doc_check(sys.modules[__name__], tier)
    return info if return_info else rc


def replay(path):
    return sweep.replay_doc(sys.modules[__name__], path)
