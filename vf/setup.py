"""MANIFEST.setup_cmd: nothing is fetched or compiled; verify the pieces are in place."""
import os
import sys

sys.argv_orig = list(sys.argv)
from . import common


def main():
    common.bootstrap()
    os.makedirs(common.EVIDENCE_DIR, exist_ok=True)
    os.makedirs(common.REPLAY_DIR, exist_ok=True)
    import markdown_it  # vendored oracle

    assert markdown_it.__file__.startswith(common.VENDOR), markdown_it.__file__
    import pymarkdown  # repository under test

    assert os.path.abspath(pymarkdown.__file__).startswith(common.REPO), pymarkdown.__file__
    from . import parser

    st, v, w = parser.parse("# a\n")
    assert st == "ok"
    print("vf setup ok: pymarkdown at", os.path.dirname(pymarkdown.__file__), "markdown-it", markdown_it.__version__)
    from .tools import selftest

    if selftest.main() != 0:
        print("WARNING: oracle self-test reported failures (see above); the checks still decide on their own")


if __name__ == "__main__":
    main()
