"""Deterministic work distribution over long-lived forked workers (DESIGN 2.1, 2.3)."""
import multiprocessing as mp
import os
import sys
import traceback

from . import common


class HarnessFault(Exception):
    """The machinery itself misbehaved (worker exception, nondeterminism): exit code 2."""


def _call(packed):
    fn, idx, task = packed
    try:
        return idx, True, fn(task)
    except BaseException:  # noqa: BLE001
        return idx, False, traceback.format_exc()


def _worker_init(user_init):
    sys.setrecursionlimit(10000)
    os.environ.update(common.REQUIRED_ENV)
    if user_init is not None:
        user_init()


def pmap(fn, tasks, init=None, jobs=None, progress=None):
    """Ordered map of fn over tasks on a fork pool.  VERIF_SEED only rotates the order in which
    tasks are handed out; the returned list is always in task order."""
    tasks = list(tasks)
    n = len(tasks)
    if n == 0:
        return []
    jobs = jobs or common.NPROC
    rot = common.SEED % n
    order = list(range(rot, n)) + list(range(0, rot))
    results = [None] * n
    if jobs == 1 or n == 1:
        _worker_init(init)
        for idx in order:
            _, ok, r = _call((fn, idx, tasks[idx]))
            if not ok:
                raise HarnessFault(r)
            results[idx] = r
        return results
    ctx = mp.get_context("fork")
    done = 0
    with ctx.Pool(min(jobs, n), initializer=_worker_init, initargs=(init,)) as p:
        for idx, ok, r in p.imap_unordered(
            _call, [(fn, idx, tasks[idx]) for idx in order], chunksize=1
        ):
            if not ok:
                p.terminate()
                raise HarnessFault(r)
            results[idx] = r
            done += 1
            if progress and done % progress == 0:
                print(f"  .. {done}/{n} chunks", file=sys.stderr, flush=True)
    return results


def chunks(total, size):
    return [(s, min(total, s + size)) for s in range(0, total, size)]
