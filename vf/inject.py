"""Fault injection seams owned by the harness (DESIGN 2.6)."""
import os

from . import common

CRASH_PLUGIN = os.path.join(common.PLUGIN_DIR, "crash_plugin.py")

_installed = [False]
_parse_calls = [0]
_parse_fault_at = [None]


def install_parser_fault():
    """Wrap the public TokenizedMarkdown.transform_from_provider: a document containing the line
    PARSECRASH makes the parser call raise BadTokenizationError (as an internal parser failure would);
    additionally the k-th call overall can be made to fail (set_parse_fault_at)."""
    if _installed[0]:
        return
    from pymarkdown.general.bad_tokenization_error import BadTokenizationError
    from pymarkdown.general.tokenized_markdown import TokenizedMarkdown

    orig = TokenizedMarkdown.transform_from_provider

    def wrapped(self, source_provider, do_add_end_of_stream_token=False):
        _parse_calls[0] += 1
        if _parse_fault_at[0] is not None and _parse_calls[0] == _parse_fault_at[0]:
            raise BadTokenizationError("injected parser fault (call %d)" % _parse_calls[0])
        lines = getattr(source_provider, "_FileSourceProvider__read_lines", None)
        if lines is None:
            tup = getattr(source_provider, "_InMemorySourceProvider__next_line_tuple", None)
            lines = tup if tup is not None else []
        if any("PARSECRASH" in (l or "") for l in lines):
            raise BadTokenizationError("injected parser fault (PARSECRASH)")
        return orig(self, source_provider, do_add_end_of_stream_token)

    TokenizedMarkdown.transform_from_provider = wrapped
    _installed[0] = True


def reset_parse_counter():
    _parse_calls[0] = 0


def parse_calls():
    return _parse_calls[0]


def set_parse_fault_at(k):
    _parse_fault_at[0] = k
