"""Named rule configurations shared by the application-level checks."""
from . import app


def all_rules():
    return sorted(app.rule_table())


def config_args(name):
    """command-line arguments (before the sub-command) for a named configuration:
    'default' | 'all' | 'only:<rule>' | 'default-minus:<rule>' | 'only2:<r1>+<r2>'"""
    t = app.rule_table()
    if name == "default":
        return []
    if name == "all":
        off = [r for r, v in t.items() if not v["enabled_default"]]
        return ["-e", ",".join(sorted(off))] if off else []
    if name.startswith("only:") or name.startswith("only2:"):
        keep = name.split(":", 1)[1].split("+")
        args = []
        dis = [r for r, v in t.items() if v["enabled_default"] and r not in keep]
        en = [r for r in keep if not t[r]["enabled_default"]]
        if dis:
            args += ["-d", ",".join(sorted(dis))]
        if en:
            args += ["-e", ",".join(sorted(en))]
        return args
    if name.startswith("default-minus:"):
        r = name.split(":", 1)[1]
        return ["-d", r]
    raise ValueError(name)


def enabled_rules(name):
    t = app.rule_table()
    if name == "default":
        return sorted(r for r, v in t.items() if v["enabled_default"])
    if name == "all":
        return sorted(t)
    if name.startswith("only"):
        return sorted(name.split(":", 1)[1].split("+"))
    if name.startswith("default-minus:"):
        r = name.split(":", 1)[1]
        return sorted(x for x, v in t.items() if v["enabled_default"] and x != r)
    raise ValueError(name)
