"""The explorer for document-level properties (DESIGN 2.3, 2.5):
exhaustive enumeration of closed spaces + explicit-state frontier search over the real parser's
abstract state graph, minimal-counterexample computation, ledger verdict, evidence."""
import collections
import json
import os
import subprocess
import sys
import time

from . import common, evidence, ledger, pool, spaces

CHUNK = 1500
MAX_VIOLATION_LINES = 40

_G = {}  # shared with forked workers


# ------------------------------------------------------------------ frontier exploration


def _frontier_task(task):
    from . import parser

    hist, line = task
    lines = list(hist) + [line]
    st, v, w, states = parser.parse_with_states(lines, _G.get("ext"))
    nxt = states[len(lines)] if len(states) > len(lines) else None
    return nxt, st


def explore_frontier(alphabet, depth, ext=None):
    """Breadth-first search of the parser's abstract state graph.  One shortest witness history
    per abstract state; every (state, line) pair up to `depth` is executed on the real parser.
    Returns (docs, info): docs = list of line tuples (every executed history), info = graph stats."""
    _G["ext"] = ext
    init_key = ("<init>",)
    seen_states = {init_key}
    wit = {init_key: ()}
    frontier_states = [init_key]
    docs = []
    transitions = set()
    per_depth = []
    dead = 0
    for _d in range(1, depth + 1):
        tasks = []
        srcs = []
        for sk in frontier_states:
            for line in alphabet:
                tasks.append((wit[sk], line))
                srcs.append(sk)
        results = pool.pmap(_frontier_task, tasks)
        new_states = []
        for (hist, line), src, (nxt, st) in zip(tasks, srcs, results):
            docs.append(tuple(hist) + (line,))
            if nxt is None or st != "ok":
                dead += 1
                continue
            transitions.add((src, line, nxt))
            if nxt not in seen_states:
                seen_states.add(nxt)
                wit[nxt] = tuple(hist) + (line,)
                new_states.append(nxt)
        per_depth.append(len(new_states))
        frontier_states = new_states
        if not new_states:
            break
    info = {
        "alphabet_size": len(alphabet),
        "depth_bound": depth,
        "depth_completed": len(per_depth),
        "new_states_per_depth": per_depth,
        "closed": bool(per_depth) and per_depth[-1] == 0,
        "states": len(seen_states),
        "distinct_transitions": len(transitions),
        "executions": len(docs),
        "dead_ends": dead,
    }
    return docs, info


# ------------------------------------------------------------------ exhaustive sweep


def _sweep_chunk(task):
    space = _G["space"]
    evaluate = _G["evaluate"]
    s, e = task
    fails = []
    counters = collections.Counter()
    outcomes = collections.Counter()
    states = set()
    digest = 0
    feeds = 0
    nontrivial = 0
    extra = []
    for i in range(s, e):
        case = space.case(i)
        digest = (digest + common.case_hash_int(space.key(case))) % (1 << 128)
        r = evaluate(space.payload(case))
        f = r.get("fail")
        if f is not None:
            fails.append((i, f[0], f[1]))
        if r.get("nontrivial"):
            nontrivial += 1
        oc = r.get("outcome")
        if oc is not None:
            outcomes[oc] += 1
        for k, v in (r.get("count") or {}).items():
            counters[k] += v
        st = r.get("states")
        if st:
            states.update(st)
        feeds += r.get("feeds", 0)
        if r.get("extra") is not None:
            extra.append((i, r["extra"]))
    return {
        "fails": fails,
        "counters": counters,
        "outcomes": outcomes,
        "states": states,
        "digest": digest,
        "feeds": feeds,
        "nontrivial": nontrivial,
        "n": e - s,
        "extra": extra,
    }


def sweep(space, evaluate, init=None, chunk=None):
    _G["space"] = space
    _G["evaluate"] = evaluate
    tasks = pool.chunks(len(space), chunk or CHUNK)
    results = pool.pmap(_sweep_chunk, tasks, init=init)
    # determinism gate: re-run the first cases after the workers have done other work
    gate_n = min(len(space), 200, chunk or CHUNK)
    again = pool.pmap(_sweep_chunk, [(0, gate_n)], jobs=1)[0]
    ref_fails = [f for r in results for f in r["fails"] if f[0] < gate_n]
    if sorted(map(repr, ref_fails)) != sorted(map(repr, again["fails"])):
        raise pool.HarnessFault(
            "determinism gate: the first %d cases gave different observations when re-run:\n%r\n%r"
            % (gate_n, ref_fails[:5], again["fails"][:5])
        )
    merged = {
        "fails": [],
        "counters": collections.Counter(),
        "outcomes": collections.Counter(),
        "states": set(),
        "digest": 0,
        "feeds": 0,
        "nontrivial": 0,
        "n": 0,
        "extra": [],
    }
    for r in results:
        merged["fails"].extend(r["fails"])
        merged["counters"].update(r["counters"])
        merged["outcomes"].update(r["outcomes"])
        merged["states"].update(r["states"])
        merged["digest"] = (merged["digest"] + r["digest"]) % (1 << 128)
        merged["feeds"] += r["feeds"]
        merged["nontrivial"] += r["nontrivial"]
        merged["n"] += r["n"]
        merged["extra"].extend(r["extra"])
    return merged


def _eval_listed(keys):
    mod, space = _G["mod"], _G["space"]
    out = []
    for key in keys:
        if hasattr(mod, "evaluate_key"):
            f = mod.evaluate_key(key)
        else:
            f = mod.evaluate(space.payload_from_key(key)).get("fail")
        out.append(f[0] if f is not None else None)
    return out


def _eval_payloads(payloads):
    ev = _G["evaluate"]
    out = []
    for p in payloads:
        f = ev(p).get("fail")
        out.append(f[0] if f is not None else None)
    return out


def minimal_cores(space, fails, evaluate=None, closed=True):
    """fails: list of (index, sig, detail).  Returns list of (text, sig, detail, case) that are
    minimal under symbol deletion among failing cases with the same signature.
    closed=False: sub-cases are evaluated on demand (frontier documents)."""
    by_text = {}
    order = []
    for i, sig, detail in fails:
        case = space.case(i)
        text = space.key(case)
        if text not in by_text:
            by_text[text] = (sig, detail, case)
            order.append(text)
    cache = {}
    mins = []
    attributed = 0
    use_single = getattr(space, "SINGLE_DELETION", True)
    if not closed:
        # frontier documents: their sub-cases were not enumerated; evaluate the needed ones in parallel
        need = {}
        for text in order:
            case = by_text[text][2]
            for sub in (space.subcases1(case) if use_single else space.subcases(case)):
                st = space.key(sub)
                if st != text and st not in by_text and st not in need:
                    need[st] = space.payload(sub)
        keys = list(need)
        _G["evaluate"] = evaluate
        chunks = [[need[k] for k in keys[i : i + 200]] for i in range(0, len(keys), 200)]
        sigs = sum(pool.pmap(_eval_payloads, chunks), []) if chunks else []
        cache = dict(zip(keys, sigs))
    for text in order:
        sig, detail, case = by_text[text]
        is_min = True
        # 1-minimality: a failing case is reported unless deleting ONE symbol still fails with the
        # same signature (a counterexample is "explained" by a smaller one only along a chain of
        # single deletions that all fail alike; a known core somewhere inside a document does not
        # explain a failure that disappears as soon as any one line is removed)
        subs = space.subcases1(case) if use_single else space.subcases(case)
        for sub in subs:
            st = space.key(sub)
            if st == text:
                continue
            if st in by_text:
                ssig = by_text[st][0]
            elif closed:
                ssig = None
            else:
                if st not in cache:
                    f = evaluate(space.payload(sub)).get("fail")
                    cache[st] = f[0] if f is not None else None
                ssig = cache[st]
            if ssig is not None and ssig == sig:
                is_min = False
                break
        if is_min:
            mins.append((text, sig, detail, case))
        else:
            attributed += 1
    return mins, len(order), attributed


# ------------------------------------------------------------------ verdict


def confirm_in_subprocess(prop, replay_path):
    """Re-validate one counterexample in a fresh process.  True = it fails there too."""
    r = subprocess.run(
        [common.PYTHON, "-m", "vf.run", prop, "--replay", replay_path],
        cwd=common.VERIF,
        env=common.child_env({"VF_REEXEC": "1"}),
        capture_output=True,
        text=True,
        check=False,
    )
    return r.returncode == 1, (r.stdout + r.stderr)[-2000:]


def run_doc_check(mod, tier):
    """Generic driver for a document-level check module (see checks/c01.py for the interface)."""
    prop = mod.PROP
    ev = evidence.Evidence(prop, tier)
    led = ledger.Ledger(prop)
    if hasattr(mod, "init"):
        mod.init()
    space = mod.space(tier)
    t0 = time.time()
    merged = sweep(space, mod.evaluate, chunk=getattr(mod, "CHUNK", None))
    t_sweep = time.time() - t0
    mins, n_fail_distinct, attributed = minimal_cores(space, merged["fails"])

    # frontier layer
    finfo = None
    fmins = []
    f_fail = 0
    fmerged = None
    fr = mod.frontier(tier) if hasattr(mod, "frontier") else None
    if fr is not None:
        alphabet, depth = fr
        t1 = time.time()
        fdocs, finfo = explore_frontier(alphabet, depth, getattr(mod, "EXT", None))
        fspace = spaces.ListSpace("F", fdocs)
        fmerged = sweep(fspace, mod.evaluate)
        fmins, f_fail, f_attr = minimal_cores(
            fspace, fmerged["fails"], evaluate=mod.evaluate, closed=False
        )
        finfo["wall_s"] = round(time.time() - t1, 1)
        finfo["failing_documents"] = f_fail
        # a frontier core that is not minimal in the exhaustive space is still a core here;
        # drop the ones already found by the exhaustive layer
        have = {m[0] for m in mins}
        fmins = [m for m in fmins if m[0] not in have]

    all_mins = mins + fmins
    extra_cov = {}
    if hasattr(mod, "extra_cases"):
        # further failing cases found by a property-specific exploration (already reduced)
        more, extra_cov = mod.extra_cases(tier)
        have = {m[0] for m in all_mins}
        for text, sig, detail in more:
            if text not in have:
                have.add(text)
                all_mins.append((text, sig, detail, None))

    # direct evaluation of every listed input (so every open record is verified in every run)
    listed_fail = {}
    listed_pass = []
    _G["mod"] = mod
    _G["space"] = space
    keys = list(led.by_key)
    verdicts = sum(pool.pmap(_eval_listed, [keys[i : i + 25] for i in range(0, len(keys), 25)]), [])
    for key, f in zip(keys, verdicts):
        fid = led.by_key[key][0]
        if f is None:
            listed_pass.append((fid, key))
        else:
            listed_fail[key] = f

    min_keys = {m[0] for m in all_mins}
    unlisted = []
    for text, sig, detail, case in all_mins:
        if led.lookup(text, sig) is None:
            unlisted.append((text, sig, detail))

    # KNOWN-FINDING lines
    stale_records = []
    for rec in led.records:
        keys = [c["key"] for c in rec["cases"]]
        failing = [k for k in keys if k in listed_fail]
        in_run = [k for k in keys if k in min_keys]
        if failing:
            print(
                f"KNOWN-FINDING: property={prop} finding={rec['finding']} {rec['summary']} "
                f"({len(failing)} of {len(keys)} listed inputs fail; {len(in_run)} are minimal cores of "
                f"this run; first: {failing[0]!r})"
            )
        else:
            stale_records.append(rec["finding"])
            print(
                f"STALE-FINDING: property={prop} finding={rec['finding']} none of its {len(keys)} listed inputs fails any more"
            )

    # violations
    confirmed = []
    for n, (text, sig, detail) in enumerate(unlisted):
        if n >= MAX_VIOLATION_LINES:
            break
        path = evidence.write_replay(
            prop, n, {"case": {"key": text}, "signature": sig, "observation": detail}
        )
        ok, out = (True, "") if os.environ.get("VF_NO_CONFIRM") == "1" else confirm_in_subprocess(prop, path)
        if not ok:
            raise pool.HarnessFault(
                f"counterexample {text!r} did not reproduce in a fresh process:\n{out}"
            )
        confirmed.append(path)
        print(f"VIOLATION property={prop} replay={path}")
        print(f"  case={text!r} signature={sig} detail={str(detail)[:300]}")
    if len(unlisted) > MAX_VIOLATION_LINES:
        print(
            f"  ... {len(unlisted) - MAX_VIOLATION_LINES} further unlisted minimal counterexamples not printed"
        )

    # evidence
    states = set(merged["states"])
    feeds = merged["feeds"]
    evals = merged["n"]
    nontriv = merged["nontrivial"]
    outcomes = collections.Counter(merged["outcomes"])
    if fmerged is not None:
        states |= fmerged["states"]
        feeds += fmerged["feeds"]
        evals += fmerged["n"]
        nontriv += fmerged["nontrivial"]
        outcomes.update(fmerged["outcomes"])
    enumerated = evals
    evals -= sum(v for k, v in outcomes.items() if str(k).startswith("pruned"))
    samples = []
    step = max(1, len(space) // 6)
    for i in range(0, len(space), step):
        samples.append(space.key(space.case(i)))
    if fr is not None and fdocs:
        samples.append("\n".join(fdocs[-1]))
    ev.coverage = {
        "exhaustive": True,
        "states": max(1, len(states)),
        "transitions": max(1, feeds),
        "traces_validated_against_impl": evals,
        "evaluations": evals,
        "cases_enumerated_including_pruned": enumerated,
        "distinct_nontrivial": nontriv,
        "rule": getattr(mod, "RULE", ""),
        "samples": samples[:8],
        "space": space.describe(),
        "case_set_digest": "%032x" % merged["digest"],
        "frontier": finfo,
        "distinct_outcomes": len(outcomes),
        "outcome_histogram": dict(outcomes.most_common(25)),
        "counters": dict(merged["counters"]),
        "failing_documents": n_fail_distinct + f_fail,
        "failing_attributed_to_smaller_core": attributed,
        "minimal_cores": len(all_mins),
        "minimal_cores_listed": len(all_mins) - len(unlisted),
        "minimal_cores_unlisted": len(unlisted),
        "ledger_records_open": len(led.records),
        "ledger_inputs_listed": len(led.by_key),
        "ledger_inputs_still_failing": len(listed_fail),
        "stale_records": stale_records,
        "caps_hit": [],
        "sweep_wall_s": round(t_sweep, 1),
        "states_meaning": getattr(
            mod,
            "STATES_MEANING",
            "distinct abstract parser states (token stack + kind of last token) observed at line boundaries; "
            "transitions = line feeds executed on the real parser",
        ),
    }
    ev.coverage.update(extra_cov)
    ev.assumptions += getattr(mod, "ASSUMPTIONS", [])
    ev.violations = len(unlisted)
    ev.write()
    print(
        f"{prop} {tier}: {evals} executions, {len(states)} abstract states, {feeds} line feeds, "
        f"{n_fail_distinct + f_fail} failing, {len(all_mins)} minimal cores "
        f"({len(unlisted)} unlisted), {time.time() - ev.t0:.0f}s"
    )
    return 1 if unlisted else 0, {"unlisted": unlisted, "mins": all_mins, "listed_pass": listed_pass}


def replay_doc(mod, path):
    with open(path, encoding="utf-8") as f:
        rp = json.load(f)
    text = rp["case"]["key"]
    if hasattr(mod, "init"):
        mod.init()
    payload = mod.space("quick").payload_from_key(text)
    r = mod.evaluate(payload)
    f = r.get("fail")
    print(f"replay property={mod.PROP} case={text!r}")
    if f is None:
        print("verdict: HOLDS on this case")
        return 0
    print(f"verdict: FAILS signature={f[0]} detail={str(f[1])[:1000]}")
    return 1
