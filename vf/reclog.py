"""In-process log shared between harness plugins (loaded by pymarkdown via --add-plugin) and the checks."""
import os

LOG = []
CONFIG = {}


def reset(**cfg):
    del LOG[:]
    CONFIG.clear()
    CONFIG.update(cfg)


def on_start():
    """recorder's starting_new_file: log S together with the current content of the watched files"""
    snap = {}
    for p in CONFIG.get("watch", ()):
        try:
            with open(p, "rb") as f:
                snap[os.path.basename(p)] = f.read().decode("utf-8", "replace")
        except OSError:
            snap[os.path.basename(p)] = None
    LOG.append(("S", snap))
