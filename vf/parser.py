"""Driver for the real parser: tokenizers per extension set, deterministic work budget
(sys.monitoring), abstract-state source provider (DESIGN 2.3, 2.4)."""
import os
import signal
import sys
import traceback

EXT_IDS = [
    "front-matter",
    "markdown-strikethrough",
    "markdown-task-list-items",
    "markdown-extended-autolinks",
    "markdown-disallow-raw-html",
    "linter-pragmas",
]
# what the application enables by default
DEFAULT_EXT = ("linter-pragmas",)

_EMS = {}


def _ext_manager(key):
    if key not in _EMS:
        from application_properties import ApplicationProperties
        from pymarkdown.extension_manager.extension_manager import ExtensionManager
        from pymarkdown.general.main_presentation import MainPresentation

        props = ApplicationProperties()
        if key is not None:
            props.load_from_dict({"extensions": {e: {"enabled": (e in key)} for e in EXT_IDS}})
        em = ExtensionManager(MainPresentation())
        em.initialize(None, props)
        em.apply_configuration()
        _EMS[key] = (props, em)
    return _EMS[key]


def tokenizer(enabled_ext=None):
    """A FRESH, configured TokenizedMarkdown for the given tuple of enabled extension ids (None = the
    parser's own defaults).  A new instance per document keeps every evaluation independent of the
    documents parsed before it (history dependence is C13's subject, not a side effect of the harness);
    the entity table is memoized (vf.app), so an instance costs ~30 microseconds."""
    from pymarkdown.general.tokenized_markdown import TokenizedMarkdown

    from . import app

    if not _memo[0]:
        app._memoize_entity_map()
        _memo[0] = True
    key = None if enabled_ext is None else tuple(sorted(enabled_ext))
    props, em = _ext_manager(key)
    tm = TokenizedMarkdown()
    tm.apply_configuration(props, em)
    return tm


_memo = [False]


# ------------------------------------------------------------------ work budget


class BudgetExceeded(BaseException):
    """Raised out of the monitoring callback; BaseException so `except Exception` cannot eat it."""


class CpuTimeout(BaseException):
    pass


_MON = sys.monitoring
_TID = 4
_cnt = [0]
_lim = [10**18]
_mon_ready = [False]


def _on_start(code, off):
    _cnt[0] += 1
    if _cnt[0] > _lim[0]:
        _lim[0] = 10**18
        _MON.set_events(_TID, 0)
        raise BudgetExceeded()


def _on_jump(code, src, dst):
    _cnt[0] += 1
    if _cnt[0] > _lim[0]:
        _lim[0] = 10**18
        _MON.set_events(_TID, 0)
        raise BudgetExceeded()


def _mon_init():
    if not _mon_ready[0]:
        try:
            _MON.use_tool_id(_TID, "vf")
        except ValueError:
            pass
        _MON.register_callback(_TID, _MON.events.PY_START, _on_start)
        _MON.register_callback(_TID, _MON.events.JUMP, _on_jump)
        _mon_ready[0] = True


def _alarm(*_a):
    raise CpuTimeout()


DEFAULT_BUDGET = 2_000_000


def run_budgeted(fn, budget=DEFAULT_BUDGET, cpu_seconds=20.0):
    """Run fn() under the event budget.  Returns (status, value, work):
    status 'ok' | 'budget' | 'cputime' | 'exc' (value = exception)."""
    _mon_init()
    _cnt[0] = 0
    _lim[0] = budget
    old = signal.signal(signal.SIGVTALRM, _alarm)
    signal.setitimer(signal.ITIMER_VIRTUAL, cpu_seconds)
    _MON.set_events(_TID, _MON.events.PY_START | _MON.events.JUMP)
    try:
        try:
            v = fn()
            st = "ok"
        except BudgetExceeded:
            st, v = "budget", None
        except CpuTimeout:
            st, v = "cputime", None
        except Exception as e:  # noqa: BLE001
            st, v = "exc", e
    finally:
        _MON.set_events(_TID, 0)
        _lim[0] = 10**18
        signal.setitimer(signal.ITIMER_VIRTUAL, 0)
        signal.signal(signal.SIGVTALRM, old)
    return st, v, _cnt[0]


GUARD_CPU_SECONDS = 0.4


def run_guarded(fn, cpu_seconds=GUARD_CPU_SECONDS):
    """Run fn() under a CPU-time guard only (no event counting: ~1.8x cheaper than run_budgeted).
    A known non-terminating parse becomes an observation ('cputime'), not a stuck check."""
    old = signal.signal(signal.SIGVTALRM, _alarm)
    signal.setitimer(signal.ITIMER_VIRTUAL, cpu_seconds)
    try:
        try:
            v = fn()
            st = "ok"
        except CpuTimeout:
            st, v = "cputime", None
        except Exception as e:  # noqa: BLE001
            st, v = "exc", e
    finally:
        signal.setitimer(signal.ITIMER_VIRTUAL, 0)
        signal.signal(signal.SIGVTALRM, old)
    return st, v, 0


def exc_signature(e):
    """Exception type + innermost pymarkdown function of the *cause* of a BadTokenizationError."""
    c = e
    while getattr(c, "__cause__", None) is not None:
        c = c.__cause__
    tb = traceback.extract_tb(c.__traceback__)
    where = "?"
    for fr in reversed(tb):
        if "pymarkdown" in fr.filename:
            where = f"{os.path.basename(fr.filename)}:{fr.name}"
            break
    return f"{type(c).__name__}@{where}"


def parse(text, enabled_ext=None, budget=None, eos=False):
    """Parse text with the real parser.  Returns (status, tokens|signature, work).
    budget=None: CPU-time guard only; an integer: deterministic event budget."""
    tm = tokenizer(enabled_ext)
    fn = lambda: tm.transform(text, do_add_end_of_stream_token=eos)  # noqa: E731
    st, v, w = run_guarded(fn) if budget is None else run_budgeted(fn, budget)
    if st == "exc":
        return st, exc_signature(v), w
    return st, v, w


# ------------------------------------------------------------------ abstract-state provider


def _abstract(tm):
    stack = getattr(tm, "_TokenizedMarkdown__token_stack", None)
    doc = getattr(tm, "_TokenizedMarkdown__tokenized_document", None)
    if stack is None or doc is None:
        return None
    last = doc[-1].token_name if doc else "-"
    if doc and doc[-1].is_end_token:
        last = "end-" + doc[-1].type_name if hasattr(doc[-1], "type_name") else last
    return ("|".join(str(t) for t in stack), last)


class StateProvider:
    """A SourceProvider written by the harness: it *is* the environment of the line-at-a-time
    block pass and records the parser's abstract state each time the parser asks for a line."""

    def __init__(self, lines, tm):
        self.lines = list(lines)
        self.i = 0
        self.tm = tm
        self.states = []

    @property
    def is_at_end_of_file(self):
        return self.i >= len(self.lines)

    def get_next_line(self):
        self.states.append(_abstract(self.tm))
        if self.i >= len(self.lines):
            return None
        line = self.lines[self.i]
        self.i += 1
        return line


def parse_with_states(lines, enabled_ext=None, budget=None, eos=False):
    """Parse the document given as a list of lines through the provider seam.
    Returns (status, tokens|signature, work, states) where states[k] is the abstract parser
    state before line k+1 is delivered (states[len(lines)] = state when the input ran out)."""
    from pymarkdown.general.source_providers import SourceProvider

    tm = tokenizer(enabled_ext)
    if not getattr(StateProvider, "_registered", False):
        SourceProvider.register(StateProvider)
        StateProvider._registered = True
    prov = StateProvider(lines, tm)
    fn = lambda: tm.transform_from_provider(prov, eos)  # noqa: E731
    st, v, w = run_guarded(fn) if budget is None else run_budgeted(fn, budget)
    if st == "exc":
        v = exc_signature(v)
    return st, v, w, prov.states


def serialize(tokens):
    return [str(t) for t in tokens]
