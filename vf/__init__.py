"""Model-checking machinery for the pymarkdown properties C01-C20 (see /verif/DESIGN.md)."""
