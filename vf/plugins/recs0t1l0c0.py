"""Harness recorder plugin (variant: defines t); behaviour driven by vf.reclog.CONFIG."""
from pymarkdown.plugin_manager.plugin_details import PluginDetailsV2
from pymarkdown.plugin_manager.rule_plugin import RulePlugin

from vf import reclog


class Recs0t1l0c0(RulePlugin):
    def get_details(self):
        return PluginDetailsV2(
            plugin_id="VRF900",
            plugin_name="verif-recorder",
            plugin_description="records every callback",
            plugin_enabled_by_default=True,
            plugin_version="0.0.1",
            plugin_interface_version=2,
            plugin_supports_fix=bool(reclog.CONFIG.get("fix", False)),
            plugin_fix_level=int(reclog.CONFIG.get("level", 0)),
        )

    def next_token(self, context, token):
        reclog.LOG.append(("T", str(token)))
