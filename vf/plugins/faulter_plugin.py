"""Harness plugin: counts its callback invocations (start, each token, each line, completion) and
raises at the k-th one (vf.reclog.CONFIG['fault_at']).  Loaded through the public --add-plugin."""
from pymarkdown.plugin_manager.plugin_details import PluginDetailsV2
from pymarkdown.plugin_manager.rule_plugin import RulePlugin

from vf import reclog


def _hit(kind, context=None):
    n = reclog.CONFIG.get("count", 0) + 1
    reclog.CONFIG["count"] = n
    reclog.LOG.append((kind, getattr(context, "scan_file", None)))
    if n == reclog.CONFIG.get("fault_at"):
        reclog.CONFIG["fired"] = (kind, getattr(context, "scan_file", None))
        raise RuntimeError(f"injected plugin fault at invocation {n} ({kind})")


class FaulterPlugin(RulePlugin):
    def get_details(self):
        return PluginDetailsV2(
            plugin_id="VRF902",
            plugin_name="verif-faulter",
            plugin_description="raises at its k-th callback invocation",
            plugin_enabled_by_default=True,
            plugin_version="0.0.1",
            plugin_interface_version=2,
            plugin_supports_fix=bool(reclog.CONFIG.get("fix", False)),
            plugin_fix_level=int(reclog.CONFIG.get("level", 0)),
        )

    def starting_new_file(self):
        _hit("S")

    def next_token(self, context, token):
        _hit("T", context)

    def next_line(self, context, line):
        _hit("L", context)

    def completed_file(self, context):
        _hit("C", context)
