"""Harness plugin (id sorts last): at every starting_new_file it dumps the state of every other rule
instance as the next file will see it (after their own starting_new_file ran).  Used by C13's
explicit-state closure; loaded through the public --add-plugin."""
import sys

from pymarkdown.plugin_manager.plugin_details import PluginDetailsV2
from pymarkdown.plugin_manager.rule_plugin import RulePlugin

from vf import reclog


def canon(v, depth=0):
    if depth > 6:
        return "..."
    if isinstance(v, (str, int, float, bool, type(None))):
        return v
    if isinstance(v, (list, tuple)):
        return [canon(x, depth + 1) for x in v]
    if isinstance(v, (set, frozenset)):
        return sorted(repr(canon(x, depth + 1)) for x in v)
    if isinstance(v, dict):
        return sorted((repr(canon(k, depth + 1)), repr(canon(x, depth + 1))) for k, x in v.items())
    if hasattr(v, "token_name"):
        return "T:" + str(v)
    if hasattr(v, "__dict__"):
        return (
            type(v).__name__,
            canon({k: x for k, x in vars(v).items() if "facade" not in k and "config" not in k.lower()}, depth + 1),
        )
    return repr(type(v))


class ZsnapPlugin(RulePlugin):
    def get_details(self):
        return PluginDetailsV2(
            plugin_id="ZZZ999",
            plugin_name="verif-snap",
            plugin_description="snapshots rule state",
            plugin_enabled_by_default=True,
            plugin_version="0.0.1",
            plugin_interface_version=2,
            plugin_supports_fix=False,
            plugin_fix_level=0,
        )

    def starting_new_file(self):
        mgr = sys._getframe(1).f_locals.get("self")
        snap = {}
        for fp in getattr(mgr, "enabled_plugins", []):
            inst = fp.plugin_instance
            if inst is self:
                continue
            snap[fp.plugin_id] = repr(
                canon({k: v for k, v in vars(inst).items() if "facade" not in k and not k.startswith("_RulePlugin__")})
            )
        reclog.LOG.append(("SNAP", snap))
