"""Harness plugin (loaded through the public --add-plugin): a rule that raises when it sees a marker.
CRASHME in a line -> raises in next_line; CRASHTOKEN in a text token -> raises in next_token;
CRASHSTART / CRASHDONE handled through the environment variable VF_CRASH_AT (see faulter_plugin for counted faults)."""
from pymarkdown.plugin_manager.plugin_details import PluginDetailsV2
from pymarkdown.plugin_manager.rule_plugin import RulePlugin


class CrashPlugin(RulePlugin):
    def get_details(self):
        return PluginDetailsV2(
            plugin_id="VRF901",
            plugin_name="verif-crash",
            plugin_description="raises on the marker CRASHME",
            plugin_enabled_by_default=True,
            plugin_version="0.0.1",
            plugin_interface_version=2,
            plugin_supports_fix=True,
            plugin_fix_level=0,
        )

    def next_line(self, context, line):
        if "CRASHME" in line:
            raise RuntimeError("injected plugin fault (CRASHME)")

    def next_token(self, context, token):
        if token.is_text and "CRASHTOKEN" in token.token_text:
            raise RuntimeError("injected plugin fault (CRASHTOKEN)")
