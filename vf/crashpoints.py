"""Crash-point exploration of the write-back of a fixed file (DESIGN 3 C15).
Every I/O step that changes the disk image under the sandbox is intercepted; the image (cwd + TMPDIR)
is snapshotted *at* each step.  A process death at that instant leaves exactly that image, so one
execution yields all crash points of its history."""
import builtins
import os
import shutil


class Interposer:
    def __init__(self, sandbox, bufsize=8):
        self.sb = sandbox
        self.bufsize = bufsize
        self.log = []  # (step description, snapshot {relpath: bytes})
        self._saved = {}

    # ------------------------------------------------------------------
    def _inside(self, path):
        try:
            p = os.path.abspath(path)
        except (TypeError, ValueError):
            return False
        return p.startswith(self.sb.root + os.sep)

    def snap(self):
        out = {}
        for label, top in (("w", self.sb.cwd), ("t", self.sb.tmp)):
            for dp, _dn, fn in os.walk(top):
                for f in fn:
                    p = os.path.join(dp, f)
                    try:
                        with self._saved["open"](p, "rb") as fh:
                            out[label + "/" + os.path.relpath(p, top)] = fh.read()
                    except OSError:
                        pass
        return out

    def step(self, what):
        self.log.append((what, self.snap()))

    # ------------------------------------------------------------------
    def __enter__(self):
        ip = self
        real_open = builtins.open
        self._saved = {
            "open": real_open,
            "remove": os.remove,
            "unlink": os.unlink,
            "replace": os.replace,
            "rename": os.rename,
            "bufsize": shutil.COPY_BUFSIZE,
            "sendfile": getattr(shutil, "_USE_CP_SENDFILE", None),
            "fcopy": getattr(shutil, "_USE_CP_COPY_FILE_RANGE", None),
        }

        class W:
            def __init__(self, f, name):
                self._f = f
                self._name = name

            def write(self, b):
                r = self._f.write(b)
                self._f.flush()
                ip.step(f"write {os.path.basename(self._name)} +{len(b)}")
                return r

            def writelines(self, ls):
                for l in ls:
                    self.write(l)

            def close(self):
                was_open = not self._f.closed
                r = self._f.close()
                if was_open:
                    ip.step(f"close {os.path.basename(self._name)}")
                return r

            def __getattr__(self, k):
                return getattr(self._f, k)

            def __enter__(self):
                return self

            def __exit__(self, *a):
                self.close()
                return False

            def __iter__(self):
                return iter(self._f)

        def my_open(file, mode="r", *a, **k):
            writing = isinstance(mode, str) and any(c in mode for c in "wax+")
            if writing and isinstance(file, (str, bytes, os.PathLike)) and ip._inside(os.fspath(file)):
                ip.step(f"before open({os.path.basename(os.fspath(file))},{mode})")
                f = real_open(file, mode, *a, **k)
                ip.step(f"opened {os.path.basename(os.fspath(file))} {mode}")
                return W(f, os.fspath(file))
            return real_open(file, mode, *a, **k)

        def wrap2(name):
            real = self._saved[name]

            def fn(src, dst, *a, **k):
                if ip._inside(os.fspath(src)) or ip._inside(os.fspath(dst)):
                    ip.step(f"before {name}({os.path.basename(os.fspath(src))}->{os.path.basename(os.fspath(dst))})")
                    r = real(src, dst, *a, **k)
                    ip.step(f"after {name}({os.path.basename(os.fspath(src))}->{os.path.basename(os.fspath(dst))})")
                    return r
                return real(src, dst, *a, **k)

            return fn

        def wrap1(name):
            real = self._saved[name]

            def fn(p, *a, **k):
                if ip._inside(os.fspath(p)):
                    r = real(p, *a, **k)
                    ip.step(f"after {name}({os.path.basename(os.fspath(p))})")
                    return r
                return real(p, *a, **k)

            return fn

        builtins.open = my_open
        os.remove = wrap1("remove")
        os.unlink = wrap1("unlink")
        os.replace = wrap2("replace")
        os.rename = wrap2("rename")
        shutil.COPY_BUFSIZE = self.bufsize
        if self._saved["sendfile"] is not None:
            shutil._USE_CP_SENDFILE = False
        if self._saved["fcopy"] is not None:
            shutil._USE_CP_COPY_FILE_RANGE = False
        return self

    def __exit__(self, *a):
        builtins.open = self._saved["open"]
        os.remove = self._saved["remove"]
        os.unlink = self._saved["unlink"]
        os.replace = self._saved["replace"]
        os.rename = self._saved["rename"]
        shutil.COPY_BUFSIZE = self._saved["bufsize"]
        if self._saved["sendfile"] is not None:
            shutil._USE_CP_SENDFILE = self._saved["sendfile"]
        if self._saved["fcopy"] is not None:
            shutil._USE_CP_COPY_FILE_RANGE = self._saved["fcopy"]
        return False
