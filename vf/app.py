"""In-process driver for the pymarkdown application (DESIGN 2.1): PyMarkdownLint().main(argv) in a
private scratch directory with a private TMPDIR, stdout/stderr captured, SystemExit caught.
Also the subprocess form (real CLI) used to confirm every reported violation."""
import contextlib
import hashlib
import io
import os
import re
import shutil
import subprocess
import sys
import tempfile

from . import common

_BASE = [None]
_COUNTER = [0]


def base_dir():
    """Per-process scratch root (removed at exit of the process that created it)."""
    if _BASE[0] is None or _BASE[0][0] != os.getpid():
        d = tempfile.mkdtemp(prefix="vf_scratch_", dir=os.environ.get("VF_SCRATCH_ROOT") or None)
        _BASE[0] = (os.getpid(), d)
        import atexit

        pid = os.getpid()

        def _cleanup(d=d, pid=pid):
            if os.getpid() == pid:
                shutil.rmtree(d, ignore_errors=True)

        atexit.register(_cleanup)
    return _BASE[0][1]


class Sandbox:
    """A private cwd + TMPDIR for one case.  Files are given as {relative path: str|bytes}."""

    def __init__(self, files=None):
        _COUNTER[0] += 1
        self.root = os.path.join(base_dir(), f"c{_COUNTER[0]}")
        self.cwd = os.path.join(self.root, "w")
        self.tmp = os.path.join(self.root, "t")
        os.makedirs(self.cwd)
        os.makedirs(self.tmp)
        if files:
            self.write(files)

    def write(self, files):
        for rel, content in files.items():
            p = os.path.join(self.cwd, rel)
            os.makedirs(os.path.dirname(p), exist_ok=True)
            if content is None:
                os.makedirs(p, exist_ok=True)
                continue
            mode = "wb"
            if isinstance(content, str):
                content = content.encode("utf-8")
            with open(p, mode) as f:
                f.write(content)

    def read(self, rel):
        with open(os.path.join(self.cwd, rel), "rb") as f:
            return f.read()

    def read_text(self, rel):
        return self.read(rel).decode("utf-8")

    def snapshot(self):
        """{relative path: sha256 or 'DIR'} for everything under cwd and TMPDIR."""
        snap = {}
        for label, top in (("w", self.cwd), ("t", self.tmp)):
            for dp, dn, fn in os.walk(top):
                for d in dn:
                    snap[label + "/" + os.path.relpath(os.path.join(dp, d), top)] = "DIR"
                for f in fn:
                    p = os.path.join(dp, f)
                    with open(p, "rb") as fh:
                        snap[label + "/" + os.path.relpath(p, top)] = hashlib.sha256(fh.read()).hexdigest()
        return snap

    def tmp_entries(self):
        return sorted(os.listdir(self.tmp))

    def close(self):
        shutil.rmtree(self.root, ignore_errors=True)

    def __enter__(self):
        return self

    def __exit__(self, *a):
        self.close()


class Result:
    __slots__ = ("rc", "out", "err")

    def __init__(self, rc, out, err):
        self.rc, self.out, self.err = rc, out, err

    def __repr__(self):
        return f"Result(rc={self.rc}, out={self.out!r}, err={self.err!r})"


_main_cls = [None]


_memo_done = [False]


def _memoize_entity_map():
    if _memo_done[0]:
        return
    _memo_done[0] = True
    _memoize_entity_map_impl()


def _memoize_entity_map_impl():
    """Every PyMarkdownLint().main() re-reads and re-filters resources/entities.json (half of the
    cost of a small scan).  The table is a pure function of that file, so the harness memoizes it on
    (path, mtime, size) and hands out a fresh copy each time.  Nothing else is altered."""
    try:
        from pymarkdown.inline.inline_character_reference_helper import (
            InlineCharacterReferenceHelper as H,
        )

        name = "_InlineCharacterReferenceHelper__load_entity_map"
        orig = getattr(H, name)
        cache = {}

        def cached(resource_path):
            f = os.path.join(resource_path, "entities.json")
            try:
                st = os.stat(f)
                key = (os.path.abspath(f), st.st_mtime_ns, st.st_size)
            except OSError:
                return orig(resource_path)
            if key not in cache:
                cache[key] = orig(resource_path)
            return dict(cache[key])

        setattr(H, name, staticmethod(cached))
    except Exception:  # noqa: BLE001 - an optimisation only
        pass


def _lint():
    if _main_cls[0] is None:
        from pymarkdown.main import PyMarkdownLint

        if os.environ.get("VF_NO_MEMO") != "1":
            _memoize_entity_map()
        _main_cls[0] = PyMarkdownLint
    return _main_cls[0]()


class AppTimeout(BaseException):
    pass


def _alarm(*_a):
    raise AppTimeout()


APP_CPU_SECONDS = 8.0


def run_main(argv, sandbox=None, stdin_text=None, cpu_seconds=APP_CPU_SECONDS):
    """Run the application in-process.  cwd/TMPDIR are the sandbox's while it runs.
    A run that burns more than cpu_seconds of CPU is cut off: rc = 'timeout'."""
    import signal

    out, err = io.StringIO(), io.StringIO()
    rc = 0
    old_cwd = os.getcwd()
    old_tmp = tempfile.tempdir
    old_env_tmp = os.environ.get("TMPDIR")
    old_stdin = sys.stdin
    if sandbox is not None:
        os.chdir(sandbox.cwd)
        tempfile.tempdir = sandbox.tmp
        os.environ["TMPDIR"] = sandbox.tmp
    if stdin_text is not None:
        data = stdin_text if isinstance(stdin_text, bytes) else stdin_text.encode("utf-8")
        sys.stdin = io.TextIOWrapper(io.BytesIO(data), encoding="utf-8")
    old_sig = signal.signal(signal.SIGVTALRM, _alarm)
    signal.setitimer(signal.ITIMER_VIRTUAL, cpu_seconds)
    try:
        with contextlib.redirect_stdout(out), contextlib.redirect_stderr(err):
            try:
                _lint().main(list(argv))
            except SystemExit as e:
                rc = e.code if isinstance(e.code, int) else (0 if e.code is None else 1)
            except AppTimeout:
                rc = "timeout"
            except Exception:  # noqa: BLE001 - an exception escaping main() is an observation
                import traceback

                rc = "exception"
                err.write("\nEXCEPTION ESCAPED main():\n" + traceback.format_exc())
    finally:
        signal.setitimer(signal.ITIMER_VIRTUAL, 0)
        signal.signal(signal.SIGVTALRM, old_sig)
        sys.stdin = old_stdin
        os.chdir(old_cwd)
        tempfile.tempdir = old_tmp
        if old_env_tmp is None:
            os.environ.pop("TMPDIR", None)
        else:
            os.environ["TMPDIR"] = old_env_tmp
    return Result(rc, out.getvalue(), err.getvalue())


def run_cli(argv, sandbox, stdin_text=None, timeout=120):
    """Run the real command line in a fresh subprocess (python -m pymarkdown ...)."""
    env = common.child_env({"TMPDIR": sandbox.tmp})
    data = None
    if stdin_text is not None:
        data = stdin_text if isinstance(stdin_text, bytes) else stdin_text.encode("utf-8")
    r = subprocess.run(
        [common.PYTHON, "-m", "pymarkdown"] + list(argv),
        cwd=sandbox.cwd,
        env=env,
        input=data,
        capture_output=True,
        timeout=timeout,
        check=False,
    )
    return Result(r.returncode, r.stdout.decode("utf-8", "replace"), r.stderr.decode("utf-8", "replace"))


_FAIL = re.compile(r"^(?P<file>.*?):(?P<line>-?\d+):(?P<col>-?\d+): (?P<rule>[A-Za-z]+\d+): (?P<desc>.*) \((?P<names>[^()]*)\)$")


def parse_failures(out):
    """Failure lines of a scan -> list of dicts (file, line, col, rule, desc, names); other lines."""
    fails, other = [], []
    for ln in out.splitlines():
        m = _FAIL.match(ln)
        if m:
            d = m.groupdict()
            d["line"] = int(d["line"])
            d["col"] = int(d["col"])
            fails.append(d)
        elif ln.strip():
            other.append(ln)
    return fails, other


FIXABLE_DEFAULT = (
    "md001 md004 md005 md007 md009 md010 md012 md019 md021 md023 md027 md029 md030 md031 md035 "
    "md037 md038 md039 md044 md046 md047 md048"
).split()

_rules_cache = {}


def rule_table():
    """{rule id lower: dict(names, enabled_default, fix, fix_level)} read from the rule classes of the
    tree under test (get_details of every pymarkdown/plugins/rule_*.py)."""
    if "t" not in _rules_cache:
        import glob
        import importlib
        import inspect

        from pymarkdown.plugin_manager.rule_plugin import RulePlugin

        table = {}
        pdir = os.path.join(common.REPO, "pymarkdown", "plugins")
        for f in sorted(glob.glob(os.path.join(pdir, "rule_*.py"))):
            modname = "pymarkdown.plugins." + os.path.basename(f)[:-3]
            mod = importlib.import_module(modname)
            for _, cls in inspect.getmembers(mod, inspect.isclass):
                if issubclass(cls, RulePlugin) and cls is not RulePlugin and cls.__module__ == modname:
                    d = cls().get_details()
                    rid = d.plugin_id.lower()
                    table[rid] = {
                        "names": [n.strip() for n in d.plugin_name.split(",")],
                        "enabled_default": bool(d.plugin_enabled_by_default),
                        "fix": bool(getattr(d, "plugin_supports_fix", False)),
                        "fix_level": getattr(d, "plugin_fix_level", None),
                    }
        _rules_cache["t"] = table
    return _rules_cache["t"]


class in_sandbox:
    """context manager: cwd and temp directory are the sandbox's (for calls into pymarkdown.api)"""

    def __init__(self, sandbox):
        self.sb = sandbox

    def __enter__(self):
        self.old_cwd = os.getcwd()
        self.old_tmp = tempfile.tempdir
        self.old_env = os.environ.get("TMPDIR")
        os.chdir(self.sb.cwd)
        tempfile.tempdir = self.sb.tmp
        os.environ["TMPDIR"] = self.sb.tmp
        return self.sb

    def __exit__(self, *a):
        os.chdir(self.old_cwd)
        tempfile.tempdir = self.old_tmp
        if self.old_env is None:
            os.environ.pop("TMPDIR", None)
        else:
            os.environ["TMPDIR"] = self.old_env
