CONSTANTS Parts = 3  Atomic = FALSE
INIT Init
NEXT Next
INVARIANTS TypeOK NeverDamaged
