CONSTANTS Parts = 3  Atomic = TRUE
INIT Init
NEXT Next
INVARIANTS TypeOK NeverDamaged
