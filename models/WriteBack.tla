-------------------------------- MODULE WriteBack --------------------------------
(* Write-back of a fixed file in pymarkdown (file_scan_helper.py, __replace_file_contents),
   with process death possible before every step.  Supplementary model for property C15:
   the deciding check explores the real code; this model states the protocol, TLC explores all
   of its crash points, and the I/O step traces recorded from the implementation are validated
   against the dumped state graph (vf/checks/c15.py, trace validation).

   target : what the user's file holds      "old" | "new" | "empty" | "partial"
   staged : number of parts written to the staging file next to the target (-1 = no staging file)
   pc     : protocol position                                                              *)
EXTENDS Integers
CONSTANTS Parts, Atomic      \* Atomic = TRUE: stage + rename (repaired);  FALSE: copy over the target (as pinned)
VARIABLES target, staged, pc

vars == <<target, staged, pc>>

Init == target = "old" /\ staged = -1 /\ pc = "start"

(* ---- repaired protocol: stage next to the target, then rename ---- *)
CreateStage == Atomic /\ pc = "start" /\ staged' = 0 /\ pc' = "copying" /\ UNCHANGED target
WriteStage  == Atomic /\ pc = "copying" /\ staged < Parts /\ staged' = staged + 1 /\ UNCHANGED <<target, pc>>
CloseStage  == Atomic /\ pc = "copying" /\ staged = Parts /\ pc' = "staged" /\ UNCHANGED <<target, staged>>
Rename      == Atomic /\ pc = "staged" /\ target' = "new" /\ staged' = -1 /\ pc' = "done"

(* ---- pinned protocol: shutil.copyfile(temp, target) ---- *)
OpenTarget  == ~Atomic /\ pc = "start" /\ target' = "empty" /\ staged' = 0 /\ pc' = "copying"
WriteTarget == ~Atomic /\ pc = "copying" /\ staged < Parts /\ staged' = staged + 1
                  /\ target' = IF staged + 1 = Parts THEN "new" ELSE "partial" /\ UNCHANGED pc
CloseTarget == ~Atomic /\ pc = "copying" /\ staged = Parts /\ staged' = -1 /\ pc' = "done" /\ UNCHANGED target

Crash == pc \notin {"done", "crashed"} /\ pc' = "crashed" /\ UNCHANGED <<target, staged>>

Next == CreateStage \/ WriteStage \/ CloseStage \/ Rename \/ OpenTarget \/ WriteTarget \/ CloseTarget \/ Crash

Spec == Init /\ [][Next]_vars

TypeOK == target \in {"old", "new", "empty", "partial"} /\ staged \in -1..Parts
            /\ pc \in {"start", "copying", "staged", "done", "crashed"}

(* C15: at every instant - in particular at every crash - the user's file is the old or the new version *)
NeverDamaged == target \in {"old", "new"}
===================================================================================
